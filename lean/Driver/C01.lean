import WuffsVerif.Common.Line
import WuffsVerif.Model.WCore.Bounds
import WuffsVerif.Model.WCore.Stmt
import WuffsVerif.Model.WCore.NoRec
import WuffsVerif.Model.WCore.IOTable
import WuffsVerif.Model.WCore.FlowMethod
import Driver.C02Flow
/-! Line driver for C01 (WCore: scalars, arrays, and — through C02's flow layer — whole function
bodies with control flow).  Ops:
  case func <n> (<param> <type>)*n <stmt>
                                -> accept <npoints> | reject | ill-formed
                                   (`wfMethod`, the computable hypothesis of Props.C01.check_sound_flow,
                                    then `checkS [] []` = bcheckBlock on the function body; <stmt>: the
                                    grammar of Driver/C02Flow.lean, whose parser is used)
  pt <k>                        -> <m> <fact>*m | unreachable     (the situation at point k of the current function)
  tb <type>                     -> lo hi | reject                 (bcheckTypeExpr1)
  bounds <n> <fact>*n <expr>    -> lo:hi per node, pre-order | reject      (bcheckExpr)
  facts <n> <fact>*n <stmt>     -> <m> <fact>*m | reject          (bcheckAssignment, scalar)
  prove <n> <fact>*n <cond>     -> ok | fail | reject             (bcheckAssert without `via`)
  ioadv <method>                -> <bytes> <consumes> | unknown   (ioMethodAdvances row, from the name)
  norec <n> (<k> <callee>*k)*n  -> ok | cycle                     (checkNoRecursiveFuncs)
  <type> = base min max  (min / max decimal or _)
  <expr> = c <int> | v <name> <type> | u <op> e | b <op> l r | as <type> e | a <op> <n> e*n
         | ix <array-name> <len> <elem-type> e
  <stmt> = assign <lhs> <rhs> | opassign <op> <lhs> <rhs>     (lhs: v … or ix …)
-/
open WuffsVerif WuffsVerif.Line WuffsVerif.Interval WuffsVerif.WCore

def parseBase : String → Option Base
  | "i8" => some .i8 | "i16" => some .i16 | "i32" => some .i32 | "i64" => some .i64
  | "u8" => some .u8 | "u16" => some .u16 | "u32" => some .u32 | "u64" => some .u64
  | "bool" => some .bool | "ideal" => some .ideal
  | _ => none

def parseOptInt (s : String) : Option (Option Int) :=
  if s == "_" then some none else s.toInt?.map some

def parseTy : List String → Option (Ty × List String)
  | b :: lo :: hi :: rest => do
    let b ← parseBase b
    let lo ← parseOptInt lo
    let hi ← parseOptInt hi
    pure (⟨b, lo, hi⟩, rest)
  | _ => none

def parseBOp : String → Option BOp
  | "plus" => some .plus | "minus" => some .minus | "star" => some .star | "slash" => some .slash
  | "percent" => some .percent | "shl" => some .shl | "shr" => some .shr | "amp" => some .amp
  | "pipe" => some .pipe | "hat" => some .hat | "modplus" => some .modplus
  | "modminus" => some .modminus | "modstar" => some .modstar | "modshl" => some .modshl
  | "satplus" => some .satplus | "satminus" => some .satminus
  | "ne" => some .ne | "lt" => some .lt | "le" => some .le | "eq" => some .eq
  | "ge" => some .ge | "gt" => some .gt | "and" => some .and | "or" => some .or
  | "min" => some .bmin | "max" => some .bmax | "lowbits" => some .lowbits | "highbits" => some .highbits
  | _ => none

def parseUOp : String → Option UOp
  | "pos" => some .pos | "neg" => some .neg | "not" => some .not
  | _ => none

mutual
partial def parseExpr : List String → Option (Expr × List String)
  | "c" :: v :: rest => do pure (.const (← v.toInt?), rest)
  | "v" :: n :: rest => do
    let (t, rest) ← parseTy rest
    pure (.var n t, rest)
  | "u" :: op :: rest => do
    let op ← parseUOp op
    let (e, rest) ← parseExpr rest
    pure (.unary op e, rest)
  | "b" :: op :: rest => do
    let op ← parseBOp op
    let (l, rest) ← parseExpr rest
    let (r, rest) ← parseExpr rest
    pure (.binary op l r, rest)
  | "as" :: rest => do
    let (t, rest) ← parseTy rest
    let (e, rest) ← parseExpr rest
    pure (.as t e, rest)
  | "ix" :: a :: len :: rest => do
    let len ← len.toNat?
    let (t, rest) ← parseTy rest
    let (i, rest) ← parseExpr rest
    pure (.index a len t i, rest)
  | "a" :: op :: n :: rest => do
    let op ← parseBOp op
    let n ← n.toNat?
    if n < 2 then none else
    let (a0, rest) ← parseExpr rest
    parseChain op (n - 1) a0 false rest
  | _ => none
partial def parseChain (op : BOp) (k : Nat) (acc : Expr) (pre : Bool) (rest : List String) :
    Option (Expr × List String) :=
  if k == 0 then some (acc, rest) else do
    let (a, rest) ← parseExpr rest
    parseChain op (k - 1) (.assoc op pre acc a) true rest
end

partial def parseExprs (k : Nat) (toks : List String) (acc : List Expr) : Option (List Expr × List String) :=
  if k == 0 then some (acc.reverse, toks) else do
    let (e, rest) ← parseExpr toks
    parseExprs (k - 1) rest (e :: acc)

def showB (b : Option Int) : String := match b with | some i => toString i | none => "inf"
def showIRc (r : IR) : String := showB r.lo ++ ":" ++ showB r.hi

-- inverse of the harness's serialisation (for the `facts` op)
def showTy (t : Ty) : String :=
  let b := match t.base with
    | .i8 => "i8" | .i16 => "i16" | .i32 => "i32" | .i64 => "i64"
    | .u8 => "u8" | .u16 => "u16" | .u32 => "u32" | .u64 => "u64" | .bool => "bool" | .ideal => "ideal"
  let o := fun (x : Option Int) => match x with | some i => toString i | none => "_"
  b ++ " " ++ o t.min ++ " " ++ o t.max

def showBOp : BOp → String
  | .plus => "plus" | .minus => "minus" | .star => "star" | .slash => "slash" | .percent => "percent"
  | .shl => "shl" | .shr => "shr" | .amp => "amp" | .pipe => "pipe" | .hat => "hat"
  | .modplus => "modplus" | .modminus => "modminus" | .modstar => "modstar" | .modshl => "modshl"
  | .satplus => "satplus" | .satminus => "satminus" | .ne => "ne" | .lt => "lt" | .le => "le"
  | .eq => "eq" | .ge => "ge" | .gt => "gt" | .and => "and" | .or => "or"
  | .bmin => "min" | .bmax => "max" | .lowbits => "lowbits" | .highbits => "highbits"

def showUOp : UOp → String
  | .pos => "pos" | .neg => "neg" | .not => "not"

partial def chainArgs : Expr → List Expr
  | .assoc _ true l r => chainArgs l ++ [r]
  | .assoc _ false l r => [l, r]
  | e => [e]

partial def showExpr : Expr → String
  | .const v => "c " ++ toString v
  | .var n t => "v " ++ n ++ " " ++ showTy t
  | .unary op e => "u " ++ showUOp op ++ " " ++ showExpr e
  | .binary op l r => "b " ++ showBOp op ++ " " ++ showExpr l ++ " " ++ showExpr r
  | .as t e => "as " ++ showTy t ++ " " ++ showExpr e
  | .assoc op pre l r =>
    let args := chainArgs (.assoc op pre l r)
    "a " ++ showBOp op ++ " " ++ toString args.length ++ " " ++ " ".intercalate (args.map showExpr)
  | .index a len t i => "ix " ++ a ++ " " ++ toString len ++ " " ++ showTy t ++ " " ++ showExpr i

def parseStmt : List String → Option (Stmt × List String)
  | "assign" :: rest => do
    let (l, rest) ← parseExpr rest
    let (r, rest) ← parseExpr rest
    pure (.assign l r, rest)
  | "opassign" :: op :: rest => do
    let op ← parseBOp op
    let (l, rest) ← parseExpr rest
    let (r, rest) ← parseExpr rest
    pure (.opAssign op l r, rest)
  | _ => none

def parseGraph : Nat → List Nat → List (List Nat) → Option (List (List Nat))
  | 0, [], acc => some acc.reverse
  | 0, _ :: _, _ => none
  | _ + 1, [], _ => none
  | n + 1, k :: rest, acc =>
    if rest.length < k then none else parseGraph n (rest.drop k) (rest.take k :: acc)

def c01Step (l : List String) : String :=
  match l with
  | "tb" :: rest =>
    match parseTy rest with
    | some (t, []) =>
      match typeBounds t with
      | some r => showB r.lo ++ " " ++ showB r.hi
      | none => "reject"
    | _ => "bad-op"
  | "bounds" :: n :: rest =>
    match n.toNat? with
    | none => "bad-op"
    | some n =>
      match parseExprs n rest [] with
      | some (fs, rest) =>
        match parseExpr rest with
        | some (e, []) =>
          match bcheck fs false e with
          | none => "reject"
          | some _ =>
            " ".intercalate ((nodesPre e).map fun nd =>
              match bcheck fs false nd with
              | some b => showIRc b
              | none => "reject")
        | _ => "bad-op"
      | none => "bad-op"
  | "facts" :: n :: rest =>
    match n.toNat? with
    | none => "bad-op"
    | some n =>
      match parseExprs n rest [] with
      | some (fs, rest) =>
        match parseStmt rest with
        | some (s, []) =>
          match checkStmt fs s with
          | none => "reject"
          | some fs' => toString fs'.length ++ (String.join (fs'.map fun f => " " ++ showExpr f))
        | _ => "bad-op"
      | none => "bad-op"
  | "prove" :: n :: rest =>
    match n.toNat? with
    | none => "bad-op"
    | some n =>
      match parseExprs n rest [] with
      | some (fs, rest) =>
        match parseExpr rest with
        | some (c, []) =>
          match proveAssert fs c with
          | none => "reject"
          | some true => "ok"
          | some false => "fail"
        | _ => "bad-op"
      | none => "bad-op"
  | ["ioadv", name] =>
    match ioAdvanceSpec name with
    | some (n, upd) => toString n ++ " " ++ toString upd
    | none => "unknown"
  | "norec" :: n :: rest =>
    match n.toNat?, rest.mapM String.toNat? with
    | some n, some nums =>
      match parseGraph n nums [] with
      | some g => if WuffsVerif.WCore.NoRec.accepts g then "ok" else "cycle"
      | none => "bad-op"
    | _, _ => "bad-op"
  | _ => "bad-op"

/-- the state of the `case func` / `pt` ops: the situations at the points of the current function -/
structure FlowState where
  pts : Array (Option (List Expr)) := #[]

partial def parseParams (k : Nat) (toks : List String) (acc : List (String × Ty)) :
    Option (List (String × Ty) × List String) :=
  if k == 0 then some (acc.reverse, toks) else
    match toks with
    | n :: rest => do
      let (t, rest) ← parseTy rest
      parseParams (k - 1) rest ((n, t) :: acc)
    | [] => none

def flowStep (st : FlowState) (l : List String) : Option (FlowState × String) :=
  match l with
  | "case" :: "func" :: n :: rest =>
    match n.toNat? with
    | none => some ({ pts := #[] }, "bad-op")
    | some n =>
      match parseParams n rest [] with
      | none => some ({ pts := #[] }, "bad-op")
      | some (params, rest) =>
        match C02Flow.parseStmt rest with
        | some (s, []) =>
          let m : WuffsVerif.WFlow.FMethod := ⟨params, s⟩
          if !WuffsVerif.WFlow.wfMethod m then some ({ pts := #[] }, "ill-formed") else
          match WuffsVerif.WFlow.checkS [] [] s with
          | none => some ({ pts := #[] }, "reject")
          | some _ =>
            let p := (WuffsVerif.WFlow.points [] (some []) s).toArray
            some ({ pts := p }, "accept " ++ toString p.size)
        | _ => some ({ pts := #[] }, "bad-op")
  | ["pt", k] =>
    match k.toNat? with
    | some k =>
      match st.pts[k]? with
      | some (some fs) => some (st, C02Flow.showFacts fs)
      | some none => some (st, "unreachable")
      | none => some (st, "bad-op")
    | none => some (st, "bad-op")
  | _ => none

def main : IO Unit :=
  Line.run ({} : FlowState) (fun st l =>
    match flowStep st l with
    | some r => r
    | none => (st, c01Step l))
