import WuffsVerif.Common.Line
import WuffsVerif.Model.ObjInit
import WuffsVerif.Model.Choose
import WuffsVerif.Model.JpegIdctRange
import WuffsVerif.Model.HashSpec
import WuffsVerif.Model.Adler32Sse
import WuffsVerif.Model.CoroFrame
import WuffsVerif.Gen.C09_StdFields
import WuffsVerif.Model.PngFilterSse
/-! Line driver for C09.  Ops:
  init <options> <selfNull 0|1> <sizeof_star_self> <wuffs_version> <prior> <obj…>
        prior = z | c:<hh> | r:<seed> | q:<seed> (r with zero magic bytes) | h:<hex>
        obj   = O <size> <implSize> <nChoosy> (<off> <sym>)* <nVt> (<off> <sym>)* <nSubs> (<off> obj)*
     -> ok <rle of the object's bytes after initialize> | err <status>
        rle: tokens joined by '.', token = hh | pp (pointer byte), optionally *count
  choose <defined-macros> <have> <cur> <name:arch>…      (lists comma separated, `-` = empty)
     -> sel <name>
  idct <64 u16 LE coefficients, hex> <64 u8 quants, hex>
     -> p=<64 bytes portable> a=<64 bytes avx2 emulation> inrange=<0|1> fit=<0|1> fit2=<0|1>
        (fit = `lanesFit`, the hypothesis of `idct_block_variants_agree`; fit2 = `lanesFit2`, the weaker
         lane condition that `blockInRange` implies: `blockInRange_imp_lanesFit2`)
  idctp … -> p=<…> inrange=<0|1> fit=<0|1> fit2=<0|1>
  adler32|crc32|crc64 <hex> -> v <decimal>
  adler32x|crc32x|crc64x <seg>…   seg = h:<hex> | r:<hh>*<count>   (long worst-case inputs, e.g. runs of 0xFF)
     -> v <decimal>
  coroframe <func> loads=<n> saves=<n> samevars=<b> guarded=<b> atsuspend=<b> pwrites=<b> scratch=<b>
     -> conforms | violates:<condition>      (shape of a generated coroutine function, Model/CoroFrame.lean)
  pngfilter <f> <d> <curr hex> <prev hex|->   (PNG row filter f = 1|3|4 with distance d = 3|4; prev `-` = first row)
     -> p=<filtered row, portable fallback> s=<filtered row, SSE4.2 twin (emulation)>
  pngfilterp … -> p=<…>
  partition wuffs_<pkg>__<struct> impl=<f,…|-> data=<f,…|->     (f_* members of the generated C struct)
     -> ok | mismatch:… | unknown-struct      (against Gen/C09_StdFields.lean, the parsed AST)
-/
open WuffsVerif WuffsVerif.Line

namespace C09
open WuffsVerif.ObjInit

def parseSlots : Nat → List String → Option (List Slot × List String)
  | 0, ts => some ([], ts)
  | n + 1, a :: b :: ts => do
    let off ← a.toNat?
    let sym ← b.toNat?
    let (rest, ts') ← parseSlots n ts
    pure (⟨off, sym⟩ :: rest, ts')
  | _, _ => none

mutual
def parseObj : Nat → List String → Option (Obj × List String)
  | 0, _ => none
  | fuel + 1, "O" :: s :: i :: nc :: ts => do
    let size ← s.toNat?
    let impl ← i.toNat?
    let nC ← nc.toNat?
    let (ch, ts) ← parseSlots nC ts
    match ts with
    | nv :: ts => do
      let nV ← nv.toNat?
      let (vt, ts) ← parseSlots nV ts
      match ts with
      | ns :: ts => do
        let nS ← ns.toNat?
        let (subs, ts) ← parseSubs fuel nS ts
        pure (Obj.mk size impl ch vt subs, ts)
      | [] => none
    | [] => none
  | _, _ => none
def parseSubs : Nat → Nat → List String → Option (Subs × List String)
  | _, 0, ts => some (Subs.nil, ts)
  | 0, _, _ => none
  | fuel + 1, n + 1, off :: ts => do
    let o ← off.toNat?
    let (ob, ts) ← parseObj fuel ts
    let (rest, ts) ← parseSubs fuel n ts
    pure (Subs.cons o ob rest, ts)
  | _, _, _ => none
end

def prngByte (seed i : Nat) : UInt8 :=
  let x : UInt64 := UInt64.ofNat seed * 0x9E3779B97F4A7C15 + UInt64.ofNat i * 0xBF58476D1CE4E5B9
  let x := x ^^^ (x >>> 31)
  let x := x * 0x94D049BB133111EB
  (x >>> 56).toUInt8

def parsePrior (s : String) : Option Mem :=
  if s == "z" then some (fun _ => .byte 0)
  else if s.startsWith "c:" then
    match fromHex (s.drop 2).toString with
    | some [b] => some (fun _ => .byte b)
    | _ => none
  else if s.startsWith "r:" then
    (s.drop 2).toString.toNat?.map (fun seed => fun i => .byte (prngByte seed i))
  else if s.startsWith "q:" then   -- PRNG bytes, but the first four (the magic field) zero
    (s.drop 2).toString.toNat?.map (fun seed => fun i => .byte (if i < 4 then 0 else prngByte seed i))
  else if s.startsWith "h:" then
    (fromHexArr (s.drop 2).toString).map (fun arr => fun i => .byte (if i < arr.size then arr.get! i else 0))
  else none

def cellTok (c : Cell) : String :=
  match c with
  | .byte b => String.ofList [hexDigit (b.toNat / 16), hexDigit (b.toNat % 16)]
  | .ptr _ _ => "pp"

def rle (toks : List String) : String :=
  let rec go (l : List String) (cur : String) (n : Nat) (acc : List String) : List String :=
    match l with
    | [] => (if n == 0 then acc else (if n == 1 then cur else s!"{cur}*{n}") :: acc).reverse
    | t :: rest =>
      if n > 0 && t == cur then go rest cur (n + 1) acc
      else go rest t 1 (if n == 0 then acc else (if n == 1 then cur else s!"{cur}*{n}") :: acc)
  ".".intercalate (go toks "" 0 [])

def statusWord : Status → String
  | .badReceiver => "bad-receiver"
  | .badSizeofReceiver => "bad-sizeof-receiver"
  | .badWuffsVersion => "bad-wuffs-version"
  | .falselyClaimedAlreadyZeroed => "falsely-claimed-already-zeroed"

def initOp (l : List String) : String :=
  match l with
  | opts :: sn :: sz :: ver :: prior :: desc =>
    match opts.toNat?, sn.toNat?, sz.toNat?, ver.toNat?, parsePrior prior, parseObj 64 desc with
    | some o, some selfNull, some sizeArg, some v, some m, some (obj, []) =>
      -- the theorems of Props/C09.lean assume a well-formed layout: every real one must be
      if !obj.wf then "ill-formed-layout" else
      match wuffsInitialize obj (selfNull != 0) sizeArg v o m with
      | .error e => "err " ++ statusWord e
      | .ok r => "ok " ++ rle ((List.range obj.size).map (fun i => cellTok (r i)))
    | _, _, _, _, _, _ => "bad-op"
  | _ => "bad-op"

open WuffsVerif.Choose in
def parseArch (s : String) : Option Arch :=
  match s with
  | "none" => some .none | "sse42" => some .x86Sse42 | "avx2" => some .x86Avx2
  | "bmi2" => some .x86Bmi2 | "neon" => some .armNeon | "crc32" => some .armCrc32
  | _ => none

def commaList (s : String) : List String := if s == "-" then [] else s.splitOn ","

open WuffsVerif.Choose in
def chooseOp (l : List String) : String :=
  match l with
  | macros :: has :: cur :: alts =>
    let ms := commaList macros
    let hs := commaList has
    let cpu : Cpu := {
      defined := fun m => match m with
        | .armCrc32 => ms.contains "crc32" | .armNeon => ms.contains "neon"
        | .x86_64_v2 => ms.contains "v2" | .x86_64_v3 => ms.contains "v3"
      has := fun a => match a with
        | .none => false | .armCrc32 => hs.contains "crc32" | .armNeon => hs.contains "neon"
        | .x86Sse42 => hs.contains "sse42" | .x86Avx2 => hs.contains "avx2" | .x86Bmi2 => hs.contains "bmi2" }
    let parsed : Option (List Alt) := alts.mapM (fun s =>
      match s.splitOn ":" with
      | [n, a] => (parseArch a).map (fun ar => ⟨n, ar⟩)
      | _ => none)
    match parsed with
    | some as => "sel " ++ choose cpu as cur
    | none => "bad-op"
  | _ => "bad-op"

def u16sOfBytes : List UInt8 → List UInt16
  | a :: b :: rest => (a.toUInt16 ||| (b.toUInt16 <<< 8)) :: u16sOfBytes rest
  | _ => []

open WuffsVerif.JpegIdct in
def idctOp (withAvx : Bool) (l : List String) : String :=
  match l with
  | [c, q] =>
    match fromHex c, fromHex q with
    | some cb, some qb =>
      if cb.length != 128 || qb.length != 64 then "bad-op" else
      let b : Array UInt16 := (u16sOfBytes cb).toArray
      let qa : Array UInt16 := (qb.map (·.toUInt16)).toArray
      let p := idctPortable b qa
      let ir := if blockInRange b qa then "1" else "0"
      let fit := if lanesFit b qa then "1" else "0"
      let fit2 := if lanesFit2 b qa then "1" else "0"
      if withAvx then s!"p={toHex p} a={toHex (idctAvx2 b qa)} inrange={ir} fit={fit} fit2={fit2}"
      else s!"p={toHex p} inrange={ir} fit={fit} fit2={fit2}"
    | _, _ => "bad-op"
  | _ => "bad-op"

/-- Adler-32 three ways: the RFC 1950 reference, the portable chunked u32 loop (`Adler32Up.hash 5552`) and the
SSE4.2 lane model (`Adler32Sse.hashSse 5536`).  `hash_spec` / `hashSse_spec` prove the three equal for all inputs;
the driver EXECUTES the two loop models as well, so that the value compared with every build of the compiled
code is also the lane model's (a disagreement would print a line no implementation produces). -/
def adler3 (bs : List UInt8) : String :=
  let v := HashSpec.adler32 bs
  let p := Adler32Up.hash 5552 bs
  let s := Adler32Sse.hashSse 5536 bs
  if p == v && s == v then toString v else s!"{v} MODELS-DISAGREE portable={p} sse42={s}"

def hashOp (f : List UInt8 → Nat) (l : List String) : String :=
  match l with
  | [h] => match fromHex h with
    | some bs => "v " ++ toString (f bs)
    | none => "bad-op"
  | _ => "bad-op"

/-- segments `h:<hex>` (literal bytes) and `r:<hh>*<count>` (a run of one byte value) -/
def parseSegs : List String → Option (List UInt8)
  | [] => some []
  | s :: rest => do
    let tl ← parseSegs rest
    if s.startsWith "h:" then (fromHex (s.drop 2).toString).map (· ++ tl)
    else if s.startsWith "r:" then
      match (s.drop 2).toString.splitOn "*" with
      | [hh, cnt] =>
        match fromHex hh, cnt.toNat? with
        | some [b], some n => some (List.replicate n b ++ tl)
        | _, _ => none
      | _ => none
    else none

def hashSegOp (f : List UInt8 → Nat) (l : List String) : String :=
  match parseSegs l with
  | some bs => "v " ++ toString (f bs)
  | none => "bad-op"

def kvNat (l : List String) (key : String) : Option Nat :=
  (l.find? (fun s => s.startsWith (key ++ "="))).bind (fun s => (s.drop (key.length + 1)).toString.toNat?)

open WuffsVerif.CoroFrame in
def coroOp (l : List String) : String :=
  match l with
  | _name :: rest =>
    match kvNat rest "loads", kvNat rest "saves", kvNat rest "samevars", kvNat rest "guarded",
        kvNat rest "atsuspend", kvNat rest "pwrites", kvNat rest "scratch" with
    | some lo, some sa, some sv, some g, some a, some p, some sc =>
      match shapeViolation ⟨lo, sa, sv != 0, g != 0, a != 0, p != 0, sc != 0⟩ with
      | none => "conforms"
      | some w => "violates:" ++ w
    | _, _, _, _, _, _, _ => "bad-op"
  | _ => "bad-op"

def kvStr (l : List String) (key : String) : Option String :=
  (l.find? (fun s => s.startsWith (key ++ "="))).map (fun s => (s.drop (key.length + 1)).toString)

open WuffsVerif.Gen.C09 in
def partitionOp (l : List String) : String :=
  match l with
  | cname :: rest =>
    match kvStr rest "impl", kvStr rest "data" with
    | some impl, some data =>
      match stdStructs.find? (fun s => "wuffs_" ++ s.pkg ++ "__" ++ s.name == cname) with
      | none => "unknown-struct"
      | some s =>
        -- cgen emits no member for fields of type base.utility
        let want (second : Bool) : List String :=
          (s.fields.filter (fun f => f.second == second && f.kind != .utility)).map (·.name)
        if want false != commaList impl then "mismatch:private_impl"
        else if want true != commaList data then "mismatch:private_data"
        else "ok"
    | _, _ => "bad-op"
  | _ => "bad-op"

open WuffsVerif.PngFilter in
def pngFilterOp (withSse : Bool) (l : List String) : String :=
  match l with
  | [fs, ds, c, p] =>
    match fs.toNat?, ds.toNat?, fromHex c, fromHex p with
    | some f, some d, some cb, some pb =>
      let curr := cb.toArray
      let prev := pb.toArray
      let rp := toHex (runRowPortable f d curr prev)
      if withSse then s!"p={rp} s={toHex (runRowSse f d curr prev)}" else s!"p={rp}"
    | _, _, _, _ => "bad-op"
  | _ => "bad-op"

def step (l : List String) : String :=
  match l with
  | "init" :: rest => initOp rest
  | "choose" :: rest => chooseOp rest
  | "idct" :: rest => idctOp true rest
  | "idctp" :: rest => idctOp false rest
  | "adler32" :: rest =>
    (match rest with
     | [h] => match fromHex h with
       | some bs => "v " ++ adler3 bs
       | none => "bad-op"
     | _ => "bad-op")
  | "crc32" :: rest => hashOp HashSpec.crc32 rest
  | "crc64" :: rest => hashOp HashSpec.crc64 rest
  | "coroframe" :: rest => coroOp rest
  | "partition" :: rest => partitionOp rest
  | "pngfilter" :: rest => pngFilterOp true rest
  | "pngfilterp" :: rest => pngFilterOp false rest
  | "adler32x" :: rest =>
    (match parseSegs rest with
     | some bs => "v " ++ adler3 bs
     | none => "bad-op")
  | "crc32x" :: rest => hashSegOp HashSpec.crc32 rest
  | "crc64x" :: rest => hashSegOp HashSpec.crc64 rest
  | _ => "bad-op"

end C09

def main : IO Unit := runPure C09.step
