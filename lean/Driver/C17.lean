import WuffsVerif.Common.Line
import WuffsVerif.Model.Lzma
import WuffsVerif.Model.LzmaWuffs
import WuffsVerif.Model.XzWuffs
/-! Line driver for C17 (lib/litonlylzma).  Bytes are lower-case hex, `-` = empty.
  enc lzma|xz <hex>            -> ok <hex>
  dec lzma|xz <hex>            -> ok <hex-data> rest=<n> err=<class>
  encd lzma|xz <hex dst> <hex> -> ok <hex of dst ++ encoding>      (Encode with a non-empty dst to append to)
  decd lzma|xz <hex dst> <hex> -> ok <hex of dst ++ data> rest=<n> err=<class>
  shl <low> <width> <head> <extra>   -> <hex emitted> <low> <width> <head> <extra>      (rangeEncoder.shiftLow)
  encbit <p> <low> <width> <head> <extra> <bit> -> <p'> <hex emitted> <low> <width> <head> <extra>
  decbit <p> <bits> <width> <hex src> -> eof | <bit> <p'> <bits> <width> rest=<n>
  encraw <hex> -> ok <hex> ;  decraw <size> <hex> -> ok <hex-data> rest=<n> err=<class>
  uvenc <n> -> <hex> ;  uvdec <hex> -> <x> <ok> rest=<n>
  crc <hex> -> <decimal>
  wdec lzma|lzma2|xz <hex> -> ok <hex-data> rest=<n> | fail <status> <hex-data> | unmodelled <why> <hex-data>
                           (Model/LzmaWuffs.lean, Model/XzWuffs.lean: the Wuffs std/lzma (literal path) and std/xz decoders)
-/
open WuffsVerif WuffsVerif.Line WuffsVerif.Lzma

def hexNib (c : UInt8) : Option UInt8 :=
  if 48 ≤ c ∧ c ≤ 57 then some (c - 48)
  else if 97 ≤ c ∧ c ≤ 102 then some (c - 87)
  else if 65 ≤ c ∧ c ≤ 70 then some (c - 55)
  else none

/-- fast hex parser over the UTF-8 bytes `u[lo:hi]` of a field (tight tail-recursive loop, from the end) -/
partial def parseHexGo (u : ByteArray) (lo i : Nat) (acc : List UInt8) : Option (List UInt8) :=
  if i ≤ lo then some acc
  else
    match hexNib (u.get! (i - 2)), hexNib (u.get! (i - 1)) with
    | some a, some b => parseHexGo u lo (i - 2) ((a * 16 + b) :: acc)
    | _, _ => none

def parseHexBytes (u : ByteArray) (lo hi : Nat) : Option (List UInt8) :=
  if hi == lo + 1 && u.get! lo == 45 then some []   -- "-"
  else if (hi - lo) % 2 ≠ 0 then none
  else parseHexGo u lo hi []

def parseHex (s : String) : Option (List UInt8) :=
  let u := s.toUTF8
  parseHexBytes u 0 u.size

def isSep (c : UInt8) : Bool := c == 32 || c == 10 || c == 13 || c == 9

partial def findSep (u : ByteArray) (i : Nat) : Nat :=
  if i < u.size then (if isSep (u.get! i) then i else findSep u (i + 1)) else i

/-- split on spaces / newline without building intermediate strings for the (possibly huge) line -/
partial def splitGo (u : ByteArray) (start : Nat) (out : Array String) : Array String :=
  if start ≥ u.size then out
  else
    let e := findSep u start
    if e > start then splitGo u (e + 1) (out.push (String.fromUTF8! (u.extract start e)))
    else splitGo u (e + 1) out

def splitFields (line : String) : List String := (splitGo line.toUTF8 0 #[]).toList

def nibHex (n : UInt8) : UInt8 := if n < 10 then 48 + n else 87 + n

def showHex (bs : Array UInt8) : String :=
  if bs.size == 0 then "-"
  else String.fromUTF8! (bs.foldl (fun (o : ByteArray) (b : UInt8) => (o.push (nibHex (b >>> 4))).push (nibHex (b &&& 15)))
    (ByteArray.emptyWithCapacity (2 * bs.size)))

def showDec (r : Array UInt8 × List UInt8 × Err) : String :=
  s!"ok {showHex r.1} rest={r.2.1.length} err={r.2.2.toString}"

def showEnc (e0 : Nat) (e : RangeEncoder) : String :=
  s!"{showHex (e.dst.extract e0 e.dst.size)} {e.low} {e.width} {e.pendingHead.toNat} {e.pendingExtra}"

def c17Step (l : List String) : String :=
  match l with
  | ["enc", f, h] =>
    match parseHex h with
    | none => "bad-op"
    | some src =>
      if f == "lzma" then "ok " ++ showHex (encodeLZMA #[] src)
      else if f == "xz" then "ok " ++ showHex (encodeXz #[] src)
      else "bad-op"
  | ["dec", f, h] =>
    match parseHex h with
    | none => "bad-op"
    | some src =>
      if f == "lzma" then showDec (decodeLZMA #[] src)
      else if f == "xz" then showDec (decodeXz #[] src)
      else "bad-op"
  | ["encd", f, hd, h] =>
    match parseHex hd, parseHex h with
    | some pre, some src =>
      if f == "lzma" then "ok " ++ showHex (encodeLZMA pre.toArray src)
      else if f == "xz" then "ok " ++ showHex (encodeXz pre.toArray src)
      else "bad-op"
    | _, _ => "bad-op"
  | ["decd", f, hd, h] =>
    match parseHex hd, parseHex h with
    | some pre, some src =>
      if f == "lzma" then showDec (decodeLZMA pre.toArray src)
      else if f == "xz" then showDec (decodeXz pre.toArray src)
      else "bad-op"
    | _, _ => "bad-op"
  | ["wdec", f, h] =>
    match parseHex h with
    | none => "bad-op"
    | some src =>
      let r := if f == "lzma" then some (WLzma.decodeLzma1 src)
               else if f == "lzma2" then some (WLzma.decodeLzma2 src)
               else if f == "xz" then some (WXz.decodeXz src) else none
      match r with
      | none => "bad-op"
      | some (.ok out rest) => s!"ok {showHex out} rest={rest.length}"
      | some (.fail msg out) => s!"fail {msg.replace " " "_"} {showHex out}"
      | some (.unmodelled why out) => s!"unmodelled {why.replace " " "_"} {showHex out}"
  | ["encraw", h] =>
    match parseHex h with
    | none => "bad-op"
    | some src => "ok " ++ showHex (encodeRaw #[] src)
  | ["decraw", n, h] =>
    match n.toNat?, parseHex h with
    | some size, some src => showDec (decodeRaw #[] src size .unsupportedLZMA)
    | _, _ => "bad-op"
  | ["shl", lo, w, hd, ex] =>
    match lo.toNat?, w.toNat?, hd.toNat?, ex.toNat? with
    | some lo, some w, some hd, some ex =>
      if ex > 100000 then "bad-op" else
      showEnc 0 (RangeEncoder.shiftLow ⟨#[], lo, w, hd.toUInt8, ex⟩)
    | _, _, _, _ => "bad-op"
  | ["encbit", p, lo, w, hd, ex, b] =>
    match p.toNat?, lo.toNat?, w.toNat?, hd.toNat?, ex.toNat?, b.toNat? with
    | some p, some lo, some w, some hd, some ex, some b =>
      if ex > 100000 then "bad-op" else
      let r := encodeBit p ⟨#[], lo, w, hd.toUInt8, ex⟩ b
      s!"{r.1} {showEnc 0 r.2}"
    | _, _, _, _, _, _ => "bad-op"
  | ["decbit", p, bits, w, h] =>
    match p.toNat?, bits.toNat?, w.toNat?, parseHex h with
    | some p, some bits, some w, some src =>
      match decodeBit p ⟨src, bits, w⟩ with
      | none => "eof"
      | some (b, p', d) => s!"{b} {p'} {d.bits} {d.width} rest={d.src.length}"
    | _, _, _, _ => "bad-op"
  | ["uvenc", n] =>
    match n.toNat? with
    | some x => if x < 18446744073709551616 then showHex (encodeUvarint #[] x) else "bad-op"
    | none => "bad-op"
  | ["uvdec", h] =>
    match parseHex h with
    | some src => let r := decodeUvarint src; s!"{r.2.1} {r.2.2} rest={r.1.length}"
    | none => "bad-op"
  | ["crc", h] =>
    match parseHex h with
    | some src => toString (crc32 src).toNat
    | none => "bad-op"
  | _ => "bad-op"

partial def c17Loop (h out : IO.FS.Stream) : IO Unit := do
  let line ← h.getLine
  if line.isEmpty then
    out.flush
    return ()
  out.putStrLn (c17Step (splitFields line))
  c17Loop h out

def main : IO Unit := do
  c17Loop (← IO.getStdin) (← IO.getStdout)
