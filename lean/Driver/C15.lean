import WuffsVerif.Common.Line
import WuffsVerif.Model.Rac.ChunkReader
import WuffsVerif.Model.Rac.ByteReader
import WuffsVerif.Model.Rac.Dict
/-! Line driver for C15 (lib/rac/chunk_reader.go).  Stateful; ops:
  case <label> <claimedSize> <hex>  -> ok dsize=<n> | err <class>     (new ChunkReader; DecompressedSize())
  dsize                             -> ok dsize=<n> | err <class>
  next                              -> chunk dlo dhi cplo cphi cslo cshi ctlo cthi stag ttag codec | eof | err <class>
  seek <d>                          -> ok | err <class>
  valid <hex> | codec <hex> | chunk <hex> <i> <cBias> <dBias> | find <hex> <dOff> <dBias>   (rNode methods, via hooks)
 rac.Reader (Model/Rac/ByteReader.lean) with the toy codec, on the file of the last `case` line:
  ropen                             -> ok <pos> | err <class>          (new Reader; Seek(0, io.SeekCurrent))
  rread <n>                         -> read <hex> <ok|class>           (Read of n bytes)
  rseek <off> <whence>              -> ok <pos> | err <class>
  rrange <lo> <hi>                  -> ok | err <class>                (SeekRange)
  rclose                            -> ok | err <class>
 racdict.Loader (Model/Rac/Dict.lean), one loader per `case` line:
  dict <csLo> <csHi> <ctLo> <ctHi> <tTag>   -> ok <hex> | err invalid|eof|ueof
-/
open WuffsVerif WuffsVerif.Line WuffsVerif.Rac.ChunkReader
open WuffsVerif.Rac.ByteReader (S openS toyCodec ReadOut)

structure DState where
  file : Option (File × Int) := none
  cr : Option Reader := none
  rs : Option S := none
  dl : WuffsVerif.Rac.Dict.Loader := {}

def showE (s : S) : Option WuffsVerif.Rac.Err → String
  | none => "ok"
  | some e => WuffsVerif.Rac.ByteReader.errWord s e

def showDSize (r : Reader) : String :=
  match r.decompressedSize with
  | .ok n => s!"ok dsize={n}"
  | .error e => "err " ++ e.word

def showNext : NextResult → String
  | .chunk c => s!"chunk {c.dLo} {c.dHi} {c.cpLo} {c.cpHi} {c.csLo} {c.csHi} {c.ctLo} {c.ctHi} {c.sTag} {c.tTag} {c.codec}"
  | .eof => "eof"
  | .err e => "err " ++ e.word
  | .spin => "spin"

/-- the hooks copy the bytes into a zeroed `rNode` -/
def nodeOf (b : ByteArray) : Node := { file := File.ofByteArray b, off := 0, size := b.size }

def c15Step (st : DState) (l : List String) : DState × String :=
  match l with
  | ["case", _, claimed, hex] =>
    match claimed.toInt?, fromHexArr hex with
    | some c, some b =>
      let f := File.ofByteArray b
      let r := openReader f c
      ({ file := some (f, c), cr := some r, rs := none, dl := {} }, showDSize r)
    | _, _ => ({}, "bad-op")
  | ["dsize"] =>
    match st.cr with
    | some r => (st, showDSize r)
    | none => (st, "bad-op")
  | ["next"] =>
    match st.cr with
    | some r => let (r', o) := r.next; ({ st with cr := some r' }, showNext o)
    | none => (st, "bad-op")
  | ["seek", d] =>
    match st.cr, d.toInt? with
    | some r, some d =>
      let (r', e) := r.seek d
      ({ st with cr := some r' }, match e with | none => "ok" | some e => "err " ++ e.word)
    | _, _ => (st, "bad-op")
  | ["ropen"] =>
    match st.file with
    | some (f, c) =>
      let (s, p, e) := (openS f c).Seek 0 1
      ({ st with rs := some s }, match e with | none => s!"ok {p}" | some e => "err " ++ showE s (some e))
    | none => (st, "bad-op")
  | ["rread", n] =>
    match st.rs, n.toNat? with
    | some s, some n =>
      let (s', o) := s.read toyCodec n
      ({ st with rs := some s' },
        match o with
        | .ret bs e => s!"read {toHex bs} {showE s' e}"
        | .spin => "spin")
    | _, _ => (st, "bad-op")
  | ["rseek", off, wh] =>
    match st.rs, off.toInt?, wh.toInt? with
    | some s, some off, some wh =>
      let (s', p, e) := s.Seek off wh
      ({ st with rs := some s' }, match e with | none => s!"ok {p}" | some e => "err " ++ showE s' (some e))
    | _, _, _ => (st, "bad-op")
  | ["rrange", lo, hi] =>
    match st.rs, lo.toInt?, hi.toInt? with
    | some s, some lo, some hi =>
      let (s', e) := s.SeekRange lo hi
      ({ st with rs := some s' }, match e with | none => "ok" | some e => "err " ++ showE s' (some e))
    | _, _, _ => (st, "bad-op")
  | ["rclose"] =>
    match st.rs with
    | some s =>
      let (s', e) := s.Close
      ({ st with rs := some s' }, match e with | none => "ok" | some e => "err " ++ showE s' (some e))
    | none => (st, "bad-op")
  | ["dict", a, b, c, d, t] =>
    match st.file, a.toNat?, b.toNat?, c.toNat?, d.toNat?, t.toNat? with
    | some (f, claimed), some a, some b, some c, some d, some t =>
      let ch : Chunk := { dLo := 0, dHi := 0, cpLo := 0, cpHi := 0, csLo := a, csHi := b, ctLo := c,
                          ctHi := d, sTag := 0, tTag := t, codec := 0 }
      let (dl', res) := st.dl.load f claimed.toNat ch
      ({ st with dl := dl' },
        match res with
        | .ok none => "ok -"
        | .ok (some bs) => "ok " ++ toHex bs
        | .error e => "err " ++ e.word)
    | _, _, _, _, _, _ => (st, "bad-op")
  | ["valid", hex] =>
    match fromHexArr hex with
    | some b => (st, toString (nodeOf b).valid)
    | none => (st, "bad-op")
  | ["codec", hex] =>
    match fromHexArr hex with
    | some b => (st, toString (nodeOf b).codec)
    | none => (st, "bad-op")
  | ["chunk", hex, i, cb, db] =>
    match fromHexArr hex, i.toNat?, cb.toNat?, db.toNat? with
    | some b, some i, some cb, some db => (st, showNext (.chunk ((nodeOf b).chunk i cb db)))
    | _, _, _, _ => (st, "bad-op")
  | ["find", hex, d, db] =>
    match fromHexArr hex, d.toNat?, db.toNat? with
    | some b, some d, some db =>
      (st, match (nodeOf b).findChunkContaining d db with | some i => toString i | none => "panic")
    | _, _, _ => (st, "bad-op")
  | _ => (st, "bad-op")

def main : IO Unit := run ({} : DState) c15Step
