import WuffsVerif.Common.Line
import WuffsVerif.Model.Rac.ChunkReader
/-! Line driver for C15 (lib/rac/chunk_reader.go).  Stateful; ops:
  case <label> <claimedSize> <hex>  -> ok dsize=<n> | err <class>     (new ChunkReader; DecompressedSize())
  dsize                             -> ok dsize=<n> | err <class>
  next                              -> chunk dlo dhi cplo cphi cslo cshi ctlo cthi stag ttag codec | eof | err <class>
  seek <d>                          -> ok | err <class>
  valid <hex> | codec <hex> | chunk <hex> <i> <cBias> <dBias> | find <hex> <dOff> <dBias>   (rNode methods, via hooks)
-/
open WuffsVerif WuffsVerif.Line WuffsVerif.Rac.ChunkReader

def showDSize (r : Reader) : String :=
  match r.decompressedSize with
  | .ok n => s!"ok dsize={n}"
  | .error e => "err " ++ e.word

def showNext : NextResult → String
  | .chunk c => s!"chunk {c.dLo} {c.dHi} {c.cpLo} {c.cpHi} {c.csLo} {c.csHi} {c.ctLo} {c.ctHi} {c.sTag} {c.tTag} {c.codec}"
  | .eof => "eof"
  | .err e => "err " ++ e.word
  | .spin => "spin"

/-- the hooks copy the bytes into a zeroed `rNode` -/
def nodeOf (b : ByteArray) : Node := { file := File.ofByteArray b, off := 0, size := b.size }

def c15Step (st : Option Reader) (l : List String) : Option Reader × String :=
  match l with
  | ["case", _, claimed, hex] =>
    match claimed.toInt?, fromHexArr hex with
    | some c, some b =>
      let r := openReader (File.ofByteArray b) c
      (some r, showDSize r)
    | _, _ => (none, "bad-op")
  | ["dsize"] =>
    match st with
    | some r => (st, showDSize r)
    | none => (st, "bad-op")
  | ["next"] =>
    match st with
    | some r => let (r', o) := r.next; (some r', showNext o)
    | none => (st, "bad-op")
  | ["seek", d] =>
    match st, d.toInt? with
    | some r, some d =>
      let (r', e) := r.seek d
      (some r', match e with | none => "ok" | some e => "err " ++ e.word)
    | _, _ => (st, "bad-op")
  | ["valid", hex] =>
    match fromHexArr hex with
    | some b => (st, toString (nodeOf b).valid)
    | none => (st, "bad-op")
  | ["codec", hex] =>
    match fromHexArr hex with
    | some b => (st, toString (nodeOf b).codec)
    | none => (st, "bad-op")
  | ["chunk", hex, i, cb, db] =>
    match fromHexArr hex, i.toNat?, cb.toNat?, db.toNat? with
    | some b, some i, some cb, some db => (st, showNext (.chunk ((nodeOf b).chunk i cb db)))
    | _, _, _, _ => (st, "bad-op")
  | ["find", hex, d, db] =>
    match fromHexArr hex, d.toNat?, db.toNat? with
    | some b, some d, some db =>
      (st, match (nodeOf b).findChunkContaining d db with | some i => toString i | none => "panic")
    | _, _, _ => (st, "bad-op")
  | _ => (st, "bad-op")

def main : IO Unit := run (none : Option Reader) c15Step
