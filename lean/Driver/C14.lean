import WuffsVerif.Common.Line
import WuffsVerif.Model.Rac.Reader
import WuffsVerif.Model.Rac.Conc
import WuffsVerif.Model.Rac.ConcData
/-! Line driver for C14 (lib/rac Reader).  Stateful.  Ops:
  case <id> size=<n> <chunk>*                 -> ok chunks=<k> size=<n> valid=<true|false>   (defines the file)
  open c=<concurrency>                        -> ok      (a fresh Reader on the current file)
      chunk    = lo:hi:<e|u>:<dataspec>          (e: stream ends with EOF, u: truncated stream)
      dataspec = item(.item)*   item = <hex> | z<count> (NUL bytes) | g<seed>@<off>+<len> (harness stream) | -  (nothing)
  read <n>                 -> n=<k> bytes=<hex | #fnv1a64 when k > 48> err=<word>   ((k>0, eof) is printed as nil)
  seek <off> <whence>      -> pos=<p> err=<word>
  seekrange <lo> <hi>      -> err=<word>
  close | closenw          -> err=<word>            (closenw = CloseWithoutWaiting, same model step)
  trace n=<N> <event>*     -> accepted | rejected at <k> <event>      (Model/Rac/Conc.lean, protocol events)
  dsched n=<N> seed=<k> <call>*  -> <result> | <result> | …   (Model/Rac/ConcData.lean: the calls are made on the
      current file by the concurrent model with N workers under a pseudo-random schedule; one result per call, in the
      format of the lines above; `!stuck` / `!fuel` / `!fault` is appended if the model cannot go on)
      call = read:<n> | seek:<off>:<whence> | seekrange:<lo>:<hi> | close
  cseek <pos> <lim> <size> <resolved> <off> <whence> <limit>  -> pos=<p> lim=<l> resolved=<0|1> ret=<r> err=<word>
      (ConcD.seekD = concReader.seek on a concReader with these cursor fields)
  mgr <lo> <hi>            -> <lo>-<hi> <lo>-<hi> …  | -     (the requests the Manager makes for the region of interest
      [lo, hi) of the current file: ConcD.stepD mgrMake iterated = runRManager)
  wrk <lo>-<hi>*           -> <lo>-<hi>:<bytes> …    | -     (the pieces one Worker sends back for these requests:
      ConcD.stepD wRecv / wMake iterated = runRWorker)
-/
open WuffsVerif WuffsVerif.Line WuffsVerif.Rac

def fnv1a64 (bs : List UInt8) : UInt64 :=
  bs.foldl (fun h b => (h ^^^ b.toUInt64) * 1099511628211) 14695981039346656037

def hex64 (x : UInt64) : String :=
  String.ofList ((List.range 16).map (fun i => hexDigit ((x >>> (UInt64.ofNat (60 - 4 * i))).toNat % 16)))

def showBytes (bs : List UInt8) : String :=
  if bs.length ≤ 48 then toHex bs else "#" ++ hex64 (fnv1a64 bs)

def errWord : Option Err → String
  | none => "nil"
  | some e => e.word

def mix64 (z : UInt64) : UInt64 :=
  let z := (z ^^^ (z >>> 30)) * 0xBF58476D1CE4E5B9
  let z := (z ^^^ (z >>> 27)) * 0x94D049BB133111EB
  z ^^^ (z >>> 31)

/-- byte `i` of the harness's pseudo-random stream `seed` (harness/cmd/c14/files.go genByte) -/
def genByte (seed : UInt64) (i : Nat) : UInt8 :=
  let h := mix64 (seed + UInt64.ofNat (i / 64) * 0x9E3779B97F4A7C15)
  let k := h % 8
  if k == 0 then 0
  else if k == 1 then (mix64 (h + UInt64.ofNat (i % 64))).toUInt8
  else ((97 : UInt64) + (h >>> 8) % 20 + mix64 (h + UInt64.ofNat (i % 64)) % 5).toUInt8

/-- `g<seed>@<off>+<len>` -/
def parseGen (s : String) : Option (List UInt8) :=
  match s.splitOn "@" with
  | [sd, rest] =>
    match rest.splitOn "+" with
    | [off, len] => do
      let sd ← sd.toNat?
      let off ← off.toNat?
      let len ← len.toNat?
      pure ((List.range len).map (fun i => genByte (UInt64.ofNat sd) (off + i)))
    | _ => none
  | _ => none

def parseItem (s : String) : Option (List UInt8) :=
  if s == "-" then some []
  else if s.front == 'z' then (s.drop 1).toString.toNat?.map zeros
  else if s.front == 'g' then parseGen (s.drop 1).toString
  else fromHex s

def parseData (s : String) : Option (List UInt8) :=
  (s.splitOn ".").foldlM (fun acc it => (parseItem it).map (acc ++ ·)) []

def parseChunk (s : String) : Option Chunk :=
  match s.splitOn ":" with
  | [lo, hi, t, d] => do
    let lo ← lo.toNat?
    let hi ← hi.toNat?
    let d ← parseData d
    if t == "e" then pure { lo := lo, hi := hi, data := d, trunc := false }
    else if t == "u" then pure { lo := lo, hi := hi, data := d, trunc := true }
    else none
  | _ => none

def kv (key : String) (s : String) : Option String :=
  if s.startsWith (key ++ "=") then some (s.drop (key.length + 1)).toString else none

structure DState where
  file : File := { chunks := [], size := 0 }
  r : R := {}

def showRes : Res → String
  | .read bs e => s!"n={bs.length} bytes={showBytes bs} err={errWord e}"
  | .seek p e => s!"pos={p} err={errWord e}"
  | .err e => s!"err={errWord e}"

def parseOp : List String → Option Op
  | ["read", n] => n.toNat?.map Op.read
  | ["seek", off, wh] => do pure (Op.seek (← off.toInt?) (← wh.toInt?))
  | ["seekrange", lo, hi] => do pure (Op.seekRange (← lo.toInt?) (← hi.toInt?))
  | ["close"] => some Op.close
  | ["closenw"] => some Op.close      -- CloseWithoutWaiting: same results as Close
  | _ => none

/-! ### pseudo-random schedules of the concurrent model with data -/

open WuffsVerif.Rac.ConcD WuffsVerif.Rac.Conc in
def dCandidates (s : DSt) : List DLabel :=
  [.stopMgr, .recycle, .ackMgr, .ackDone, .roi, .mgrMake, .mgrSend, .recvRes, .recycleCurr, .copy, .readDone] ++
  (List.range s.ws.length).flatMap (fun i => [.stopW i, .ackW i, .wRecv i, .wMake i, .wSend i, .wRecycle i]) ++
  (List.range s.completed.length).map .take

def lcg (x : Nat) : Nat := (x * 6364136223846793005 + 1442695040888963407) % 18446744073709551616

/-- one protocol step chosen by `rng` among the enabled ones (none: nothing is enabled) -/
def dPick (F : File) (s : ConcD.DSt) (rng : Nat) : Option ConcD.DSt :=
  let cands := dCandidates s
  let k := (rng / 65536) % cands.length
  (cands.drop k ++ cands.take k).findSome? (fun l => ConcD.stepD F s l)

/-- run protocol steps until `main` is between calls again -/
def dFinish (F : File) : Nat → ConcD.DSt → Nat → ConcD.DSt × Nat × String
  | 0, s, rng => (s, rng, " !fuel")
  | fuel + 1, s, rng =>
    if s.main = .idle ∨ s.main = .closed then (s, rng, "")
    else if s.fault then (s, rng, " !fault")
    else
      let rng := lcg rng
      match dPick F s rng with
      | none => (s, rng, " !stuck")
      | some s' => dFinish F fuel s' rng

/-- a few protocol steps while `main` is between calls (the pipeline keeps running) -/
def dBackground (F : File) : Nat → ConcD.DSt → Nat → ConcD.DSt × Nat
  | 0, s, rng => (s, rng)
  | k + 1, s, rng =>
    let rng := lcg rng
    match dPick F s rng with
    | none => (s, rng)
    | some s' => dBackground F k s' rng

def parseCall (t : String) : Option Op :=
  match t.splitOn ":" with
  | ["read", n] => n.toNat?.map Op.read
  | ["seek", off, wh] => do pure (Op.seek (← off.toInt?) (← wh.toInt?))
  | ["seekrange", lo, hi] => do pure (Op.seekRange (← lo.toInt?) (← hi.toInt?))
  | ["close"] => some Op.close
  | _ => none

def dSched (F : File) (n : Nat) (seed : Nat) (calls : List Op) : String :=
  let rec go : List Op → ConcD.DSt → Nat → ConcD.DSt × String
    | [], s, _ => (s, "")
    | op :: ops, s, rng =>
      match ConcD.stepD F s (.call op) with
      | none => (s, if s.fault then " !fault" else " !stuck")
      | some s1 =>
        let (s2, rng, e) := dFinish F 4000000 s1 rng
        if e != "" then (s2, e)
        else
          let rng := lcg rng
          let (s3, rng) := dBackground F ((rng / 65536) % 12) s2 rng
          go ops s3 rng
  let (s, e) := go calls (ConcD.DSt.init F n) (lcg (seed + 1))
  String.intercalate " | " (s.results.map showRes) ++ e

/-! ### per-function correspondence for the concurrent model -/

def dCseek (pos lim size : Nat) (resolved : Bool) (off wh limit : Int) : String :=
  let F : File := { chunks := [], size := size }
  let s : ConcD.DSt := { ConcD.DSt.init F 0 with pos := pos, lim := lim, seekResolved := resolved }
  let (s', p, e) := ConcD.seekD F s off wh limit
  s!"pos={s'.pos} lim={s'.lim} resolved={if s'.seekResolved then 1 else 0} ret={p} err={errWord e}"

/-- the Manager's requests for one region of interest -/
def dMgr (F : File) (lo hi : Nat) : String :=
  let s0 : ConcD.DSt := ConcD.DSt.init F 1
  let m0 : Conc.M := { s0.mgr.m with inputOn := false, roi := some 0, work := none }
  let mg0 : ConcD.DM := { s0.mgr with m := m0, rlo := lo, rhi := hi, cur := lo }
  let s0 : ConcD.DSt := { s0 with mgr := mg0 }
  let rec go : Nat → ConcD.DSt → List String → List String
    | 0, _, acc => acc ++ ["!fuel"]
    | fuel + 1, s, acc =>
      if s.fault then acc ++ ["!fault"]
      else if s.mgr.m.inputOn then acc
      else match ConcD.stepD F s .mgrMake with
        | none => acc ++ ["!stuck"]
        | some s' =>
          if s'.mgr.m.work.isSome then
            -- `output <- work`: the request leaves the Manager's hand (mgrSend)
            go fuel { s' with mgr := { s'.mgr with m := { s'.mgr.m with work := none } } }
              (acc ++ [s!"{s'.mgr.wlo}-{s'.mgr.whi}"])
          else go fuel s' acc
  let out := go (F.chunks.length + 3) s0 []
  if out.isEmpty then "-" else String.intercalate " " out

/-- the pieces a Worker sends back for a list of requests -/
def dWrk (F : File) (reqs : List (Nat × Nat)) : String :=
  let s0 : ConcD.DSt := ConcD.DSt.init F 1
  -- one Worker step through `stepD`, with the channels and buffers kept out of the way
  let fresh (s : ConcD.DSt) : ConcD.DSt :=
    { s with resc := [], ws := s.ws.map (fun w => { w with w := { w.w with held := 0, canAlloc := 2, recyc := 0 } }) }
  let rec pieces : Nat → ConcD.DSt → List String → ConcD.DSt × List String
    | 0, s, acc => (s, acc ++ ["!fuel"])
    | fuel + 1, s, acc =>
      match s.ws[0]? with
      | none => (s, acc ++ ["!noworker"])
      | some w =>
        if s.fault then (s, acc ++ ["!fault"])
        else if w.w.dr.isNone then (s, acc)
        else match ConcD.stepD F s (.wMake 0) with
          | none => (s, acc ++ ["!stuck"])
          | some s1 =>
            match s1.ws[0]? with
            | none => (s1, acc ++ ["!noworker"])
            | some w1 =>
              if s1.fault then (s1, acc ++ ["!fault"])
              else match ConcD.stepD F s1 (.wSend 0) with
                | none => (s1, acc ++ ["!stuck"])
                | some s2 => pieces fuel (fresh s2) (acc ++ [s!"{w1.olo}-{w1.ohi}:{showBytes w1.odata}"])
  let rec go : List (Nat × Nat) → ConcD.DSt → List String → List String
    | [], _, acc => acc
    | (lo, hi) :: rest, s, acc =>
      let s := { s with reqc := [{ it := { epoch := 0, owner := none }, lo := lo, hi := hi }] }
      match ConcD.stepD F s (.wRecv 0) with
      | none => acc ++ ["!stuck"]
      | some s1 =>
        if s1.fault then acc ++ ["!fault"]
        else
          let (s2, acc) := pieces (hi - lo + 2) s1 acc
          go rest s2 acc
  let out := go reqs (fresh s0) []
  if out.isEmpty then "-" else String.intercalate " " out

def parseRange (t : String) : Option (Nat × Nat) :=
  match t.splitOn "-" with
  | [lo, hi] => do pure ((← lo.toNat?), (← hi.toNat?))
  | _ => none

def c14Step (st : DState) (l : List String) : DState × String :=
  match l with
  | "case" :: _id :: sz :: chunks =>
    match (kv "size" sz).bind String.toNat?, chunks.mapM parseChunk with
    | some size, some cs =>
      let F : File := { chunks := cs, size := size }
      ({ file := F, r := R.init F false }, s!"ok chunks={cs.length} size={size} valid={F.valid}")
    | _, _ => (st, "bad-op")
  | ["open", c] =>
    match (kv "c" c).bind String.toNat? with
    | some conc => ({ st with r := R.init st.file (decide (conc > 1)) }, "ok")
    | none => (st, "bad-op")
  | "dsched" :: nw :: sd :: calls =>
    match (kv "n" nw).bind String.toNat?, (kv "seed" sd).bind String.toNat?, calls.mapM parseCall with
    | some n, some seed, some ops => (st, dSched st.file n seed ops)
    | _, _, _ => (st, "bad-op")
  | ["cseek", pos, lim, size, res, off, wh, limit] =>
    match pos.toNat?, lim.toNat?, size.toNat?, res.toNat?, off.toInt?, wh.toInt?, limit.toInt? with
    | some pos, some lim, some size, some res, some off, some wh, some limit =>
      (st, dCseek pos lim size (res != 0) off wh limit)
    | _, _, _, _, _, _, _ => (st, "bad-op")
  | ["mgr", lo, hi] =>
    match lo.toNat?, hi.toNat? with
    | some lo, some hi => (st, dMgr st.file lo hi)
    | _, _ => (st, "bad-op")
  | "wrk" :: reqs =>
    match reqs.mapM parseRange with
    | some rs => (st, dWrk st.file rs)
    | none => (st, "bad-op")
  | "trace" :: nw :: evs =>
    match (kv "n" nw).bind String.toNat? with
    | some n => (st, Conc.traceLine n evs)
    | none => (st, "bad-op")
  | _ =>
    match parseOp l with
    | none => (st, "bad-op")
    | some op =>
      let (r', res) := st.r.step st.file op
      ({ st with r := r' }, showRes res.canon)

def main : IO Unit := run ({} : DState) c14Step
