import WuffsVerif.Common.Line
import WuffsVerif.Model.Rac.Reader
import WuffsVerif.Model.Rac.Conc
/-! Line driver for C14 (lib/rac Reader).  Stateful.  Ops:
  case <id> size=<n> <chunk>*                 -> ok chunks=<k> size=<n> valid=<true|false>   (defines the file)
  open c=<concurrency>                        -> ok      (a fresh Reader on the current file)
      chunk    = lo:hi:<e|u>:<dataspec>          (e: stream ends with EOF, u: truncated stream)
      dataspec = item(.item)*   item = <hex> | z<count> (NUL bytes) | g<seed>@<off>+<len> (harness stream) | -  (nothing)
  read <n>                 -> n=<k> bytes=<hex | #fnv1a64 when k > 48> err=<word>   ((k>0, eof) is printed as nil)
  seek <off> <whence>      -> pos=<p> err=<word>
  seekrange <lo> <hi>      -> err=<word>
  close | closenw          -> err=<word>            (closenw = CloseWithoutWaiting, same model step)
  trace n=<N> <event>*     -> accepted | rejected at <k> <event>      (Model/Rac/Conc.lean, protocol events)
-/
open WuffsVerif WuffsVerif.Line WuffsVerif.Rac

def fnv1a64 (bs : List UInt8) : UInt64 :=
  bs.foldl (fun h b => (h ^^^ b.toUInt64) * 1099511628211) 14695981039346656037

def hex64 (x : UInt64) : String :=
  String.ofList ((List.range 16).map (fun i => hexDigit ((x >>> (UInt64.ofNat (60 - 4 * i))).toNat % 16)))

def showBytes (bs : List UInt8) : String :=
  if bs.length ≤ 48 then toHex bs else "#" ++ hex64 (fnv1a64 bs)

def errWord : Option Err → String
  | none => "nil"
  | some e => e.word

def mix64 (z : UInt64) : UInt64 :=
  let z := (z ^^^ (z >>> 30)) * 0xBF58476D1CE4E5B9
  let z := (z ^^^ (z >>> 27)) * 0x94D049BB133111EB
  z ^^^ (z >>> 31)

/-- byte `i` of the harness's pseudo-random stream `seed` (harness/cmd/c14/files.go genByte) -/
def genByte (seed : UInt64) (i : Nat) : UInt8 :=
  let h := mix64 (seed + UInt64.ofNat (i / 64) * 0x9E3779B97F4A7C15)
  let k := h % 8
  if k == 0 then 0
  else if k == 1 then (mix64 (h + UInt64.ofNat (i % 64))).toUInt8
  else ((97 : UInt64) + (h >>> 8) % 20 + mix64 (h + UInt64.ofNat (i % 64)) % 5).toUInt8

/-- `g<seed>@<off>+<len>` -/
def parseGen (s : String) : Option (List UInt8) :=
  match s.splitOn "@" with
  | [sd, rest] =>
    match rest.splitOn "+" with
    | [off, len] => do
      let sd ← sd.toNat?
      let off ← off.toNat?
      let len ← len.toNat?
      pure ((List.range len).map (fun i => genByte (UInt64.ofNat sd) (off + i)))
    | _ => none
  | _ => none

def parseItem (s : String) : Option (List UInt8) :=
  if s == "-" then some []
  else if s.front == 'z' then (s.drop 1).toString.toNat?.map zeros
  else if s.front == 'g' then parseGen (s.drop 1).toString
  else fromHex s

def parseData (s : String) : Option (List UInt8) :=
  (s.splitOn ".").foldlM (fun acc it => (parseItem it).map (acc ++ ·)) []

def parseChunk (s : String) : Option Chunk :=
  match s.splitOn ":" with
  | [lo, hi, t, d] => do
    let lo ← lo.toNat?
    let hi ← hi.toNat?
    let d ← parseData d
    if t == "e" then pure { lo := lo, hi := hi, data := d, trunc := false }
    else if t == "u" then pure { lo := lo, hi := hi, data := d, trunc := true }
    else none
  | _ => none

def kv (key : String) (s : String) : Option String :=
  if s.startsWith (key ++ "=") then some (s.drop (key.length + 1)).toString else none

structure DState where
  file : File := { chunks := [], size := 0 }
  r : R := {}

def showRes : Res → String
  | .read bs e => s!"n={bs.length} bytes={showBytes bs} err={errWord e}"
  | .seek p e => s!"pos={p} err={errWord e}"
  | .err e => s!"err={errWord e}"

def parseOp : List String → Option Op
  | ["read", n] => n.toNat?.map Op.read
  | ["seek", off, wh] => do pure (Op.seek (← off.toInt?) (← wh.toInt?))
  | ["seekrange", lo, hi] => do pure (Op.seekRange (← lo.toInt?) (← hi.toInt?))
  | ["close"] => some Op.close
  | ["closenw"] => some Op.close      -- CloseWithoutWaiting: same results as Close
  | _ => none

def c14Step (st : DState) (l : List String) : DState × String :=
  match l with
  | "case" :: _id :: sz :: chunks =>
    match (kv "size" sz).bind String.toNat?, chunks.mapM parseChunk with
    | some size, some cs =>
      let F : File := { chunks := cs, size := size }
      ({ file := F, r := R.init F false }, s!"ok chunks={cs.length} size={size} valid={F.valid}")
    | _, _ => (st, "bad-op")
  | ["open", c] =>
    match (kv "c" c).bind String.toNat? with
    | some conc => ({ st with r := R.init st.file (decide (conc > 1)) }, "ok")
    | none => (st, "bad-op")
  | "trace" :: nw :: evs =>
    match (kv "n" nw).bind String.toNat? with
    | some n => (st, Conc.traceLine n evs)
    | none => (st, "bad-op")
  | _ =>
    match parseOp l with
    | none => (st, "bad-op")
    | some op =>
      let (r', res) := st.r.step st.file op
      ({ st with r := r' }, showRes res.canon)

def main : IO Unit := run ({} : DState) c14Step
