import WuffsVerif.Common.Line
import WuffsVerif.Model.Token
import WuffsVerif.Model.Parse
/-! Line driver for C11 (lang/token, lang/parse).  Ops:
  tok <hex>          -> ok n=<tokens> u=<user names> c=<comments> h=<fnv1a-64> [t=id:line,…]  |  err <class> <line|->
  parse <du> <hex>   -> ok n=<dump length> h=<fnv1a-64 of the AST dump> [d=…]  |  err <line|->  |  notok
  pexpr <hex>        -> the same for parse.ParseExpr (model: `pExpr` at the full depth budgets)
(the same canonical lines harness/cmd/c11/tie.go renders from token.Tokenize's / parse.Parse's
answers; <du> = Options.AllowDoubleUnderscoreNames).
-/
open WuffsVerif WuffsVerif.Line WuffsVerif.Token

namespace C11Driver

def fnvInit : UInt64 := 0xcbf29ce484222325

@[inline] def fnvByte (h : UInt64) (b : UInt8) : UInt64 := (h ^^^ b.toUInt64) * 0x100000001b3

def fnvU32 (h : UInt64) (x : Nat) : UInt64 :=
  let h := fnvByte h (UInt8.ofNat (x % 256))
  let h := fnvByte h (UInt8.ofNat (x / 256 % 256))
  let h := fnvByte h (UInt8.ofNat (x / 65536 % 256))
  fnvByte h (UInt8.ofNat (x / 16777216 % 256))

def fnvStr (h : UInt64) (s : String) : UInt64 :=
  s.foldl (fun h c => fnvByte h (UInt8.ofNat c.toNat)) h

def hex16 (x : UInt64) : String :=
  String.ofList ((List.range 16).map (fun i => hexDigit ((x.toNat >>> (4 * (15 - i))) % 16)))

def listingLimit : Nat := 160

def errWord : Err → String
  | .lines => "lines" | .backslash => "backslash" | .unterminated => "unterminated"
  | .control => "control" | .strlong => "strlong" | .sqinvalid => "sqinvalid"
  | .sqmulti => "sqmulti" | .identlong => "identlong" | .octal => "octal"
  | .constlong => "constlong" | .numeric => "numeric" | .unrecognized => "unrecognized"
  | .toomany => "toomany" | .stuck => "stuck"

def tokLine (src : ByteArray) : String :=
  match tokenize src with
  | .error f =>
    let line := match f.err with
      | .lines | .toomany => "-"
      | _ => toString f.line
    "err " ++ errWord f.err ++ " " ++ line
  | .ok st =>
    let h := st.toks.foldl (fun h t => fnvU32 (fnvU32 h t.id) t.line) fnvInit
    let h := fnvByte h 0xFF
    let h := st.m.byID.foldl (fun h s => fnvByte (fnvStr h s) 0) h
    let h := fnvByte h 0xFF
    let h := st.comments.foldl (fun h s => fnvByte (fnvStr h s) 10) h
    let s := s!"ok n={st.toks.size} u={st.m.byID.size} c={st.comments.size} h={hex16 h}"
    if src.size ≤ listingLimit then
      s ++ " t=" ++ ",".intercalate (st.toks.toList.map (fun t => s!"{t.id}:{t.line}"))
    else s

def parseLine (du : Bool) (src : ByteArray) : String :=
  match tokenize src with
  | .error _ => "notok"
  | .ok st =>
    let env : Parse.Env := { tm := st.m, opts := { allowDoubleUnderscoreNames := du } }
    match Parse.parseFile env st.toks.toList with
    | .error (.at l) => s!"err {l}"
    | .error .internal => "err -"
    | .error .stuck => "stuck"
    | .ok file =>
      let dump := Parse.dumpNode 1000000000 file #[]
      let h := dump.foldl fnvU32 fnvInit
      let s := s!"ok n={dump.size} h={hex16 h}"
      if dump.size ≤ 400 then s ++ " d=" ++ ",".intercalate (dump.toList.map toString) else s

def dumpLine (n : Parse.Node) : String :=
  let dump := Parse.dumpNode 1000000000 n #[]
  let h := dump.foldl fnvU32 fnvInit
  let s := s!"ok n={dump.size} h={hex16 h}"
  if dump.size ≤ 400 then s ++ " d=" ++ ",".intercalate (dump.toList.map toString) else s

/-- `parse.ParseExpr(tm, filename, tokens, nil)`. -/
def exprLine (src : ByteArray) : String :=
  match tokenize src with
  | .error _ => "notok"
  | .ok st =>
    let env : Parse.Env := { tm := st.m, opts := {} }
    let toks := st.toks.toList
    let ps : Parse.PState := { src := toks, lastLine := (toks.getLast?.map (·.line)).getD 0 }
    match (Parse.pExpr env (Parse.MaxExprDepth + 1) (Parse.MaxTypeExprDepth + 1)
        (Parse.MaxBodyDepth + 1)).run ps with
    | .error (.at l) => s!"err {l}"
    | .error .internal => "err -"
    | .error .stuck => "stuck"
    | .ok (n, _) => dumpLine n

def step (l : List String) : String :=
  match l with
  | ["parse", du, hex] =>
    match fromHexArr hex with
    | some src => parseLine (du == "1") src
    | none => "bad-op"
  | ["pexpr", hex] =>
    match fromHexArr hex with
    | some src => exprLine src
    | none => "bad-op"
  | ["tok", hex] =>
    match fromHexArr hex with
    | some src => tokLine src
    | none => "bad-op"
  | _ => "bad-op"

end C11Driver

def main : IO Unit := runPure C11Driver.step
