import WuffsVerif.Common.Line
/-! Line driver for C11 — stub, not built yet. -/
open WuffsVerif.Line

def main : IO Unit := runPure (fun _ => "bad-op")
