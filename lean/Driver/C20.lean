import WuffsVerif.Common.Line
import WuffsVerif.Model.Det
import WuffsVerif.Model.DetBuild
import WuffsVerif.Model.DetRelease
import WuffsVerif.Model.DetQQID
/-! Line driver for C20.  Ops:
  listdir <dir-hex> <suffix-hex> <0|1> <name-hex>:<d|f> …   -> files=<hex,…|-> dirs=<hex,…|->
      (entries in the order they were created; the model is `Det.listDir`)
  topo <qid>:<fieldqid>,<fieldqid>… <qid>: …                 -> ok <i,j,…> | cycle
      (structs in declaration order, QIDs as numbers; the model is `Det.topoSort`)
  findfiles <root-hex> <suffix-hex> d:<path-hex>:<name-hex>.<d|f>,… …   -> files=<hex,…|-> | err
      (one d: token per directory of the tree, entries in creation order; `Det.findFiles`)
  genplan <root-hex> a:<dir-hex>:<0|1> … d:<path-hex>:<entries> … u:<file-hex>:<use-hex>,… …
      -> plan <dir-hex>=<file-hex>,…;… rel <hex,…|-> | err
      (`wuffs gen` arguments, the package tree, the `use` paths per source file; `Det.genPlan`, then
       `Det.releaseArgs` over the outputs of the plan)
  release <rel-hex>:<include-hex>,… …                           -> ok <hex,…|-> | err
      (`wuffs-c genrelease` arguments in command-line order with their #include targets; `Det.assemble`)
  qqidlt <x0> <x1> <x2> <y0> <y1> <y2>                          -> true | false
      (t.QQID.LessThan on uint32 triples; `Det.qqidLess`)
-/
open WuffsVerif WuffsVerif.Line WuffsVerif.Det

def bytesOfHex (s : String) : Option (List Nat) := (fromHex s).map (·.map (·.toNat))

def hexOfBytes (b : List Nat) : String := toHex (b.map (fun n => UInt8.ofNat n))

def showNames (l : List (List Nat)) : String :=
  if l.isEmpty then "-" else ",".intercalate (l.map hexOfBytes)

def parseEntry (s : String) : Option DirEntry :=
  match s.splitOn ":" with
  | [h, "d"] => (bytesOfHex h).map (fun n => ⟨n, true⟩)
  | [h, "f"] => (bytesOfHex h).map (fun n => ⟨n, false⟩)
  | _ => none

def parseStruct (s : String) : Option StructDecl :=
  match s.splitOn ":" with
  | [q, fs] =>
    match q.toNat?, (if fs == "" then some [] else (fs.splitOn ",").mapM String.toNat?) with
    | some q, some fs => some ⟨q, fs⟩
    | _, _ => none
  | _ => none

def parseEnt (s : String) : Option DirEntry :=
  match s.splitOn "." with
  | [h, "d"] => (bytesOfHex h).map (fun n => ⟨n, true⟩)
  | [h, "f"] => (bytesOfHex h).map (fun n => ⟨n, false⟩)
  | _ => none

def parseHexList (s : String) : Option (List (List Nat)) :=
  if s == "" then some [] else (s.splitOn ",").mapM bytesOfHex

/-- tokens `d:<path>:<entries>` as an association list path ↦ enumeration -/
def parseDirs (toks : List String) : Option (List (List Nat × List DirEntry)) :=
  (toks.filter (·.startsWith "d:")).mapM (fun t =>
    match t.splitOn ":" with
    | [_, p, es] =>
      match bytesOfHex p, (if es == "" then some [] else (es.splitOn ",").mapM parseEnt) with
      | some p, some es => some (p, es)
      | _, _ => none
    | _ => none)

def fsOfDirs (dirs : List (List Nat × List DirEntry)) : FS := fun p => List.lookup p dirs

def parseUses (toks : List String) : Option (List (List Nat × List (List Nat))) :=
  (toks.filter (·.startsWith "u:")).mapM (fun t =>
    match t.splitOn ":" with
    | [_, f, us] =>
      match bytesOfHex f, parseHexList us with
      | some f, some us => some (f, us)
      | _, _ => none
    | _ => none)

def parseArgs (toks : List String) : Option (List (List Nat × Bool)) :=
  (toks.filter (·.startsWith "a:")).mapM (fun t =>
    match t.splitOn ":" with
    | [_, d, r] => if r != "0" && r != "1" then none else (bytesOfHex d).map (fun d => (d, r == "1"))
    | _ => none)

def parseCFile (t : String) : Option CFile :=
  match t.splitOn ":" with
  | [r, incs] =>
    match bytesOfHex r, parseHexList incs with
    | some r, some incs => some ⟨r, incs⟩
    | _, _ => none
  | _ => none

def c20Step (l : List String) : String :=
  match l with
  | "listdir" :: dir :: suffix :: sd :: ents =>
    match bytesOfHex dir, bytesOfHex suffix, ents.mapM parseEntry with
    | some d, some sfx, some es =>
      if sd != "0" && sd != "1" then "bad-op" else
      let r := listDir d sfx (sd == "1") es
      "files=" ++ showNames r.1 ++ " dirs=" ++ showNames r.2
    | _, _, _ => "bad-op"
  | "findfiles" :: root :: suffix :: toks =>
    match bytesOfHex root, bytesOfHex suffix, parseDirs toks with
    | some root, some sfx, some dirs =>
      match findFiles (fsOfDirs dirs) 200 root sfx with
      | some fs => "files=" ++ showNames fs
      | none => "err"
    | _, _, _ => "bad-op"
  | "genplan" :: root :: toks =>
    match bytesOfHex root, parseArgs toks, parseDirs toks, parseUses toks with
    | some root, some args, some dirs, some uses =>
      match genPlan (fsOfDirs dirs) (fun f => (List.lookup f uses).getD []) root 400 args with
      | none => "err"
      | some plan =>
        let ps := plan.map (fun e => hexOfBytes e.1 ++ "=" ++ ",".intercalate (e.2.map hexOfBytes))
        match releaseArgs (fsOfPlan root plan) 4 root with
        | some rel => "plan " ++ ";".intercalate ps ++ " rel " ++ showNames rel
        | none => "err"
    | _, _, _, _ => "bad-op"
  | "release" :: files =>
    match files.mapM parseCFile with
    | some fs =>
      match assemble fs with
      | some order => "ok " ++ showNames order
      | none => "err"
    | none => "bad-op"
  | ["qqidlt", x0, x1, x2, y0, y1, y2] =>
    match [x0, x1, x2, y0, y1, y2].mapM String.toNat? with
    | some [a, b, c, d, e, f] => toString (qqidLess a b c d e f)
    | _ => "bad-op"
  | "topo" :: structs =>
    match structs.mapM parseStruct with
    | some ns =>
      match topoSort ns with
      | some order => "ok " ++ ",".intercalate (order.map toString)
      | none => "cycle"
    | none => "bad-op"
  | _ => "bad-op"

def main : IO Unit := Line.runPure c20Step
