import WuffsVerif.Common.Line
import WuffsVerif.Model.Det
/-! Line driver for C20.  Ops:
  listdir <dir-hex> <suffix-hex> <0|1> <name-hex>:<d|f> …   -> files=<hex,…|-> dirs=<hex,…|->
      (entries in the order they were created; the model is `Det.listDir`)
  topo <qid>:<fieldqid>,<fieldqid>… <qid>: …                 -> ok <i,j,…> | cycle
      (structs in declaration order, QIDs as numbers; the model is `Det.topoSort`)
-/
open WuffsVerif WuffsVerif.Line WuffsVerif.Det

def bytesOfHex (s : String) : Option (List Nat) := (fromHex s).map (·.map (·.toNat))

def hexOfBytes (b : List Nat) : String := toHex (b.map (fun n => UInt8.ofNat n))

def showNames (l : List (List Nat)) : String :=
  if l.isEmpty then "-" else ",".intercalate (l.map hexOfBytes)

def parseEntry (s : String) : Option DirEntry :=
  match s.splitOn ":" with
  | [h, "d"] => (bytesOfHex h).map (fun n => ⟨n, true⟩)
  | [h, "f"] => (bytesOfHex h).map (fun n => ⟨n, false⟩)
  | _ => none

def parseStruct (s : String) : Option StructDecl :=
  match s.splitOn ":" with
  | [q, fs] =>
    match q.toNat?, (if fs == "" then some [] else (fs.splitOn ",").mapM String.toNat?) with
    | some q, some fs => some ⟨q, fs⟩
    | _, _ => none
  | _ => none

def c20Step (l : List String) : String :=
  match l with
  | "listdir" :: dir :: suffix :: sd :: ents =>
    match bytesOfHex dir, bytesOfHex suffix, ents.mapM parseEntry with
    | some d, some sfx, some es =>
      if sd != "0" && sd != "1" then "bad-op" else
      let r := listDir d sfx (sd == "1") es
      "files=" ++ showNames r.1 ++ " dirs=" ++ showNames r.2
    | _, _, _ => "bad-op"
  | "topo" :: structs =>
    match structs.mapM parseStruct with
    | some ns =>
      match topoSort ns with
      | some order => "ok " ++ ",".intercalate (order.map toString)
      | none => "cycle"
    | none => "bad-op"
  | _ => "bad-op"

def main : IO Unit := Line.runPure c20Step
