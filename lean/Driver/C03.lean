import WuffsVerif.Common.Line
import WuffsVerif.Model.IOHelpers
import WuffsVerif.Model.Suspend
/-!
Line driver for C03 (`wv_c03`). Ops (io2 is always the end of the given buffer):

* `hist <variant> <hexbuf> <io0> <iop> <length> <distance>` →
  `<ret> <iop'> <hexbuf'> <ok|unsafe>`; variants `checked fast fast_cusp chunks chunks_cusp dist1 dist1_cusp`
  (the seven `limited_copy_u32_from_history*` helpers of io-private.h).
* `from_slice <hexbuf> <io0> <iop> <length> <hexsrc>` (`limited_copy_u32_from_slice`),
  `copy_from_slice <hexbuf> <io0> <iop> <hexsrc>` → same result shape.
* `to_slice <hexbuf> <io0> <iop> <length> <dstlen>` (`io_reader.limited_copy_u32_to_slice`) →
  `<ret> <iop'> <hex of bytes delivered> <ok|unsafe>`.
* `susp <read|skip|write> <be:0|1> <xx> <yy> <arg> <chunks [a,b,…]> <hex bytes>`: one coroutine that
  performs ONE suspending built-in, driven over a source (destination for `write`) that grows by the
  given chunk sizes; prints one `status:consumed` per call and the final value:
  `[s0:c0,s1:c1,…] <value>` with s ∈ `ok`, `sr` ($short read), `sw` ($short write).
-/
open WuffsVerif.Line
open WuffsVerif

namespace C03Driver

def bytesHex (a : Array UInt8) : String := toHex a.toList

def okWord (b : Bool) : String := if b then "ok" else "unsafe"

def showRes (r : IOHelpers.Res) : String :=
  s!"{r.ret} {r.iop} {bytesHex r.mem.buf} {okWord r.mem.ok}"

def histOp (variant : String) (m : IOHelpers.Mem) (iop : Int) (len dist : Nat) : Option IOHelpers.Res :=
  match variant with
  | "checked" => some (IOHelpers.histCopy m iop len dist)
  | "fast" => some (IOHelpers.histCopyFast m iop len dist)
  | "fast_cusp" => some (IOHelpers.histCopyFastCusp m iop len dist)
  | "chunks" => some (IOHelpers.histCopyChunks m iop len dist)
  | "chunks_cusp" => some (IOHelpers.histCopyChunksCusp m iop len dist)
  | "dist1" => some (IOHelpers.histCopyDist1 m iop len dist)
  | "dist1_cusp" => some (IOHelpers.histCopyDist1Cusp m iop len dist)
  | _ => none

def mkMem (buf : List UInt8) (io0 : Nat) : IOHelpers.Mem :=
  { buf := buf.toArray, lo := io0, hi := buf.length, ok := true }

/-- Drive one suspending built-in over growing input. `avail` = bytes not yet consumed that the
caller has supplied; each call sees them all (compaction keeps the unread tail). -/
partial def suspLoop (kind : String) (be : Bool) (xx yy : Nat) (arg : Nat)
    (rest : List UInt8) (chunks : List Nat) (unread : List UInt8)
    (st : Option UInt64) (first : Bool) (acc : List String) (fuel : Nat) : String :=
  if fuel == 0 then "fuel" else
  -- supply the next chunk (last repeats; a 0 that repeats means "everything")
  let (c, chunks') := match chunks with
    | [] => (rest.length, [])
    | [x] => ((if x == 0 then rest.length else x), [x])
    | x :: xs => (x, xs)
  let take := rest.take c
  let rest' := rest.drop c
  let window := unread ++ take
  let io : Suspend.IO := { buf := window.toArray, iop := 0, io2 := window.length, closed := false, ok := true }
  let out : Suspend.Out :=
    match kind, st with
    | "read", none => Suspend.readUxxEnter be xx yy io
    | "read", some sc => Suspend.readUxxResume be xx yy io sc
    | "read8", _ => Suspend.readU8 io
    | "skip1", _ => Suspend.skip1 io
    | "skip", none => Suspend.skipN io arg.toUInt64
    | "skip", some sc => Suspend.skipN io sc
    | _, _ => Suspend.Out.outOfFuel
  let _ := first
  match out with
  | .done s v =>
    let acc := acc ++ [s!"ok:{s.iop}"]
    "[" ++ ",".intercalate acc ++ "] " ++ toString v.toNat ++ (if s.ok then "" else " unsafe")
  | .shortRead s sc =>
    let acc := acc ++ [s!"sr:{s.iop}"]
    if rest'.isEmpty then "[" ++ ",".intercalate acc ++ "] -" ++ (if s.ok then "" else " unsafe")
    else suspLoop kind be xx yy arg rest' chunks' (window.drop s.iop) (some sc) false acc (fuel - 1)
  | .shortWrite _ _ => "bad"
  | .outOfFuel => "fuel"

/-- `write_u8?` over a destination that offers `caps` bytes of room per call. -/
partial def writeLoop (v : Nat) (caps : List Nat) (acc : List String) (fuel : Nat) : String :=
  if fuel == 0 then "fuel" else
  let (c, caps') := match caps with
    | [] => (1, [])
    | [x] => (x, [x])
    | x :: xs => (x, xs)
  let io : Suspend.IO := { buf := Array.replicate c 0, iop := 0, io2 := c, closed := false, ok := true }
  match Suspend.writeU8 io v.toUInt64 with
  | .done s _ =>
    "[" ++ ",".intercalate (acc ++ [s!"ok:{s.iop}"]) ++ "] " ++ bytesHex (s.buf.extract 0 s.iop) ++ (if s.ok then "" else " unsafe")
  | .shortWrite s _ =>
    if caps'.isEmpty || (caps' == [0]) then "[" ++ ",".intercalate (acc ++ [s!"sw:{s.iop}"]) ++ "] -"
    else writeLoop v caps' (acc ++ [s!"sw:{s.iop}"]) (fuel - 1)
  | _ => "bad"

def step (f : List String) : String :=
  match f with
  | ["hist", variant, hb, io0, iop, len, dist] =>
    match fromHex hb, io0.toNat?, iop.toInt?, len.toNat?, dist.toNat? with
    | some b, some io0, some iop, some len, some dist =>
      match histOp variant (mkMem b io0) iop len dist with
      | some r => showRes r
      | none => "bad-op"
    | _, _, _, _, _ => "bad-op"
  | ["from_slice", hb, io0, iop, len, hs] =>
    match fromHex hb, io0.toNat?, iop.toInt?, len.toNat?, fromHex hs with
    | some b, some io0, some iop, some len, some src =>
      showRes (IOHelpers.copyFromSliceLimited (mkMem b io0) iop len src)
    | _, _, _, _, _ => "bad-op"
  | ["copy_from_slice", hb, io0, iop, hs] =>
    match fromHex hb, io0.toNat?, iop.toInt?, fromHex hs with
    | some b, some io0, some iop, some src => showRes (IOHelpers.copyFromSlice (mkMem b io0) iop src)
    | _, _, _, _ => "bad-op"
  | ["to_slice", hb, io0, iop, len, dl] =>
    match fromHex hb, io0.toNat?, iop.toInt?, len.toNat?, dl.toNat? with
    | some b, some io0, some iop, some len, some dl =>
      let r := IOHelpers.copyToSliceLimited (mkMem b io0) iop len dl
      s!"{r.1.ret} {r.1.iop} {toHex r.2} {okWord r.1.mem.ok}"
    | _, _, _, _, _ => "bad-op"
  | ["susp", kind, be, xx, yy, arg, chunks, hb] =>
    match be.toNat?, xx.toNat?, yy.toNat?, arg.toNat?, parseNatList chunks, fromHex hb with
    | some be, some xx, some yy, some arg, some chunks, some b =>
      if kind == "write" then writeLoop arg chunks [] 100000
      else if kind == "read" || kind == "read8" || kind == "skip" || kind == "skip1" then
        suspLoop kind (be == 1) xx yy arg b chunks [] none true [] 100000
      else "bad-op"
    | _, _, _, _, _, _ => "bad-op"
  | _ => "bad-op"

end C03Driver

def main : IO Unit := runPure C03Driver.step
