import WuffsVerif.Common.Line
import WuffsVerif.Model.IOHelpers
import WuffsVerif.Model.Suspend
import WuffsVerif.Model.StatusFlow
import WuffsVerif.Model.StdCall
import WuffsVerif.Model.IOMatch
/-!
Line driver for C03 (`wv_c03`). Ops (io2 is always the end of the given buffer):

* `hist <variant> <hexbuf> <io0> <iop> <length> <distance>` →
  `<ret> <iop'> <hexbuf'> <ok|unsafe>`; variants `checked fast fast_cusp chunks chunks_cusp dist1 dist1_cusp`
  (the seven `limited_copy_u32_from_history*` helpers of io-private.h).
* `from_slice <hexbuf> <io0> <iop> <length> <hexsrc>` (`limited_copy_u32_from_slice`),
  `copy_from_slice <hexbuf> <io0> <iop> <hexsrc>` → same result shape.
* `to_slice <hexbuf> <io0> <iop> <length> <dstlen>` (`io_reader.limited_copy_u32_to_slice`) →
  `<ret> <iop'> <hex of bytes delivered> <ok|unsafe>`.
* `susp <read|skip|write> <be:0|1> <xx> <yy> <arg> <chunks [a,b,…]> <hex bytes>`: one coroutine that
  performs ONE suspending built-in, driven over a source (destination for `write`) that grows by the
  given chunk sizes; prints one `status:consumed` per call and the final value:
  `[s0:c0,s1:c1,…] <value>` with s ∈ `ok`, `sr` ($short read), `sw` ($short write).
* `flow <fn> <ast> <names> <script>`: a wrapper coroutine in the compact form of `Model/StatusFlow.lean`
  (translated from the probe package's source by harness/cmd/c03/flow.go) run by `StatusFlow.exec` in the
  world of the probe: the inner coroutine answers by the next input byte (`E` error 5, `N` note 5, `W`
  suspension 5 then ok, other ok, none `$short read`); script = `<hex new bytes>:<closed>,…`, one item per
  call. Prints the checker's verdict and what each call returned: `G|U [status:ri,…]`.
* `status <hex of repr | NULL>` → `ok= note= susp= err= complete= trunc= internal= msg=<hex|NULL>`: the status
  predicates of fundamental-public.h (`Model/StdCall.lean`).
* `callrec <ample> <status hex|NULL> <closed> <sri0> <swi> <sri1> <dwi0> <dlen> <dwi1>` → the verdict word of
  `StdCall.classify` for one call of a compiled decoder.
* `match7 <hexbuf> <io0> <iop> <closed> <a>` → `<ret> <ok|unsafe> <shift-ok|invalid-shift>`;
  `from_reader <hexW> <io0W> <iopW> <length> <hexR> <io0R> <iopR>` → `<ret> <iopW'> <iopR'> <hexW'> <ok|unsafe>`.
* `subslice <i|j|ij> <len|NULL> <i> <j>` → `<offset|null> <len>`: `wuffs_base__slice_u8__subslice_*`.
-/
open WuffsVerif.Line
open WuffsVerif

namespace C03Driver

def bytesHex (a : Array UInt8) : String := toHex a.toList

def okWord (b : Bool) : String := if b then "ok" else "unsafe"

def showRes (r : IOHelpers.Res) : String :=
  s!"{r.ret} {r.iop} {bytesHex r.mem.buf} {okWord r.mem.ok}"

def histOp (variant : String) (m : IOHelpers.Mem) (iop : Int) (len dist : Nat) : Option IOHelpers.Res :=
  match variant with
  | "checked" => some (IOHelpers.histCopy m iop len dist)
  | "fast" => some (IOHelpers.histCopyFast m iop len dist)
  | "fast_cusp" => some (IOHelpers.histCopyFastCusp m iop len dist)
  | "chunks" => some (IOHelpers.histCopyChunks m iop len dist)
  | "chunks_cusp" => some (IOHelpers.histCopyChunksCusp m iop len dist)
  | "dist1" => some (IOHelpers.histCopyDist1 m iop len dist)
  | "dist1_cusp" => some (IOHelpers.histCopyDist1Cusp m iop len dist)
  | _ => none

def mkMem (buf : List UInt8) (io0 : Nat) : IOHelpers.Mem :=
  { buf := buf.toArray, lo := io0, hi := buf.length, ok := true }

/-- Drive one suspending built-in over growing input. `avail` = bytes not yet consumed that the
caller has supplied; each call sees them all (compaction keeps the unread tail). -/
partial def suspLoop (kind : String) (be : Bool) (xx yy : Nat) (arg : Nat)
    (rest : List UInt8) (chunks : List Nat) (unread : List UInt8)
    (st : Option UInt64) (first : Bool) (acc : List String) (fuel : Nat) : String :=
  if fuel == 0 then "fuel" else
  -- supply the next chunk (last repeats; a 0 that repeats means "everything")
  let (c, chunks') := match chunks with
    | [] => (rest.length, [])
    | [x] => ((if x == 0 then rest.length else x), [x])
    | x :: xs => (x, xs)
  let take := rest.take c
  let rest' := rest.drop c
  let window := unread ++ take
  let io : Suspend.IO := { buf := window.toArray, iop := 0, io2 := window.length, closed := false, ok := true }
  let out : Suspend.Out :=
    match kind, st with
    | "read", none => Suspend.readUxxEnter be xx yy io
    | "read", some sc => Suspend.readUxxResume be xx yy io sc
    | "read8", _ => Suspend.readU8 io
    | "skip1", _ => Suspend.skip1 io
    | "skip", none => Suspend.skipN io arg.toUInt64
    | "skip", some sc => Suspend.skipN io sc
    | _, _ => Suspend.Out.outOfFuel
  let _ := first
  match out with
  | .done s v =>
    let acc := acc ++ [s!"ok:{s.iop}"]
    "[" ++ ",".intercalate acc ++ "] " ++ toString v.toNat ++ (if s.ok then "" else " unsafe")
  | .shortRead s sc =>
    let acc := acc ++ [s!"sr:{s.iop}"]
    if rest'.isEmpty then "[" ++ ",".intercalate acc ++ "] -" ++ (if s.ok then "" else " unsafe")
    else suspLoop kind be xx yy arg rest' chunks' (window.drop s.iop) (some sc) false acc (fuel - 1)
  | .shortWrite _ _ => "bad"
  | .outOfFuel => "fuel"

/-- `write_u8?` over a destination that offers `caps` bytes of room per call. -/
partial def writeLoop (v : Nat) (caps : List Nat) (acc : List String) (fuel : Nat) : String :=
  if fuel == 0 then "fuel" else
  let (c, caps') := match caps with
    | [] => (1, [])
    | [x] => (x, [x])
    | x :: xs => (x, xs)
  let io : Suspend.IO := { buf := Array.replicate c 0, iop := 0, io2 := c, closed := false, ok := true }
  match Suspend.writeU8 io v.toUInt64 with
  | .done s _ =>
    "[" ++ ",".intercalate (acc ++ [s!"ok:{s.iop}"]) ++ "] " ++ bytesHex (s.buf.extract 0 s.iop) ++ (if s.ok then "" else " unsafe")
  | .shortWrite s _ =>
    if caps'.isEmpty || (caps' == [0]) then "[" ++ ",".intercalate (acc ++ [s!"sw:{s.iop}"]) ++ "] -"
    else writeLoop v caps' (acc ++ [s!"sw:{s.iop}"]) (fuel - 1)
  | _ => "bad"

/-! ### `flow`: the world of the probe package -/

structure PW where
  window : List UInt8
  consumed : Nat
  pendingW : Bool
  future : List (List UInt8 × Bool)
  ris : List Nat
  deriving Inhabited

def probeWorld : StatusFlow.World PW where
  call w :=
    if w.pendingW then (.ok, { w with pendingW := false })
    else match w.window with
      | [] => (.shortRead, w)
      | b :: r =>
        let w' := { w with window := r, consumed := w.consumed + 1 }
        if b == 0x45 then (.err 5, w')
        else if b == 0x4E then (.note 5, w')
        else if b == 0x57 then (.susp 5, { w' with pendingW := true })
        else (.ok, w')
  anyStatus w := (.ok, w)
  anyBool w := (false, w)
  resume w :=
    match w.future with
    | [] => none
    | (bs, c) :: f => some (c, { w with window := w.window ++ bs, consumed := 0, ris := w.consumed :: w.ris, future := f })

def parseScript (s : String) : Option (List (List UInt8 × Bool)) :=
  (s.splitOn ",").mapM (fun item =>
    match item.splitOn ":" with
    | [h, c] => (fromHex h).map (fun b => (b, c == "1"))
    | _ => none)

def statusName (names : List (String × String)) (s : StatusFlow.Status) : String :=
  let key := match s with
    | .ok => "ok"
    | .shortRead => "r"
    | .note k => s!"n{k}"
    | .err k => s!"e{k}"
    | .susp k => s!"s{k}"
  match s with
  | .ok => "ok"
  | .shortRead => "$base:_short_read"
  | _ => match names.find? (fun p => p.1 == key) with
    | some p => p.2
    | none => "?" ++ key

def flowOp (ast names script : String) : String :=
  match StatusFlow.parseStmt ast, parseScript script with
  | some st, some ((b0, c0) :: rest) =>
    let nm := (names.splitOn ",").filterMap (fun e => match e.splitOn "=" with | [k, v] => some (k, v) | _ => none)
    let w0 : PW := { window := b0, consumed := 0, pendingW := false, future := rest, ris := [] }
    let r := StatusFlow.exec probeWorld 100000 st ⟨c0, fun _ => .ok, w0, []⟩
    -- falling off the end of the body returns ok
    let tr := if r.1 == .normal then (r.2.closed, StatusFlow.Status.ok) :: r.2.trace else r.2.trace
    let ris := r.2.w.consumed :: r.2.w.ris
    let items := (tr.zip ris).reverse.map (fun p => statusName nm p.1.2 ++ ":" ++ toString p.2)
    (if StatusFlow.guarded st then "G" else "U") ++ " [" ++ ",".intercalate items ++ "]"
  | _, _ => "bad-op"

def b01 (b : Bool) : String := if b then "1" else "0"

def parseRepr (s : String) : Option StdCall.SRepr :=
  if s == "NULL" then some none else (fromHex s).map some

def statusOp (r : StdCall.SRepr) : String :=
  let msg := match StdCall.message r with
    | none => "NULL"
    | some bs => toHex bs
  s!"ok={b01 (StdCall.isOk r)} note={b01 (StdCall.isNote r)} susp={b01 (StdCall.isSuspension r)} " ++
  s!"err={b01 (StdCall.isError r)} complete={b01 (StdCall.isComplete r)} trunc={b01 (StdCall.isTruncatedInputError r)} " ++
  s!"internal={b01 (StdCall.isInternalError r)} msg={msg}"

def step (f : List String) : String :=
  match f with
  | ["hist", variant, hb, io0, iop, len, dist] =>
    match fromHex hb, io0.toNat?, iop.toInt?, len.toNat?, dist.toNat? with
    | some b, some io0, some iop, some len, some dist =>
      match histOp variant (mkMem b io0) iop len dist with
      | some r => showRes r
      | none => "bad-op"
    | _, _, _, _, _ => "bad-op"
  | ["from_slice", hb, io0, iop, len, hs] =>
    match fromHex hb, io0.toNat?, iop.toInt?, len.toNat?, fromHex hs with
    | some b, some io0, some iop, some len, some src =>
      showRes (IOHelpers.copyFromSliceLimited (mkMem b io0) iop len src)
    | _, _, _, _, _ => "bad-op"
  | ["copy_from_slice", hb, io0, iop, hs] =>
    match fromHex hb, io0.toNat?, iop.toInt?, fromHex hs with
    | some b, some io0, some iop, some src => showRes (IOHelpers.copyFromSlice (mkMem b io0) iop src)
    | _, _, _, _ => "bad-op"
  | ["to_slice", hb, io0, iop, len, dl] =>
    match fromHex hb, io0.toNat?, iop.toInt?, len.toNat?, dl.toNat? with
    | some b, some io0, some iop, some len, some dl =>
      let r := IOHelpers.copyToSliceLimited (mkMem b io0) iop len dl
      s!"{r.1.ret} {r.1.iop} {toHex r.2} {okWord r.1.mem.ok}"
    | _, _, _, _, _ => "bad-op"
  | ["susp", kind, be, xx, yy, arg, chunks, hb] =>
    match be.toNat?, xx.toNat?, yy.toNat?, arg.toNat?, parseNatList chunks, fromHex hb with
    | some be, some xx, some yy, some arg, some chunks, some b =>
      if kind == "write" then writeLoop arg chunks [] 100000
      else if kind == "read" || kind == "read8" || kind == "skip" || kind == "skip1" then
        suspLoop kind (be == 1) xx yy arg b chunks [] none true [] 100000
      else "bad-op"
    | _, _, _, _, _, _ => "bad-op"
  | ["flow", _fn, ast, names, script] => flowOp ast names script
  | ["status", h] =>
    match parseRepr h with
    | some r => statusOp r
    | none => "bad-op"
  | ["callrec", ample, st, closed, sri0, swi, sri1, dwi0, dlen, dwi1] =>
    match ample.toNat?, parseRepr st, sri0.toNat?, swi.toNat?, sri1.toNat?, dwi0.toNat?, dlen.toNat?, dwi1.toNat? with
    | some ample, some st, some sri0, some swi, some sri1, some dwi0, some dlen, some dwi1 =>
      (StdCall.classify ⟨st, closed == "1", sri0, swi, sri1, dwi0, dlen, dwi1, ample⟩).word
    | _, _, _, _, _, _, _, _ => "bad-op"
  | ["match7", hb, io0, iop, closed, a] =>
    match fromHex hb, io0.toNat?, iop.toInt?, a.toNat? with
    | some b, some io0, some iop, some a =>
      let r := IOHelpers.match7 (mkMem b io0) iop (closed == "1") a.toUInt64
      s!"{r.ret} {okWord r.mem.ok} " ++ (if r.shiftOk then "shift-ok" else "invalid-shift")
    | _, _, _, _ => "bad-op"
  | ["subslice", kind, ln, i, j] =>
    match (if ln == "NULL" then some (IOHelpers.CSlice.mk none 0) else ln.toNat?.map (fun l => IOHelpers.CSlice.mk (some 0) l)),
        i.toNat?, j.toNat? with
    | some s, some i, some j =>
      let r := if kind == "i" then IOHelpers.subsliceI s i else if kind == "j" then IOHelpers.subsliceJ s j
        else IOHelpers.subsliceIJ s i j
      (match r.off with
       | none => s!"null {r.len}"
       | some o => s!"{o} {r.len}") ++ (if r.nullArith then " null-arith" else "")
    | _, _, _ => "bad-op"
  | ["from_reader", hw, io0w, iopw, len, hr, io0r, iopr] =>
    match fromHex hw, io0w.toNat?, iopw.toInt?, len.toNat?, fromHex hr, io0r.toNat?, iopr.toInt? with
    | some bw, some io0w, some iopw, some len, some br, some io0r, some iopr =>
      let r := IOHelpers.copyFromReaderLimited (mkMem bw io0w) iopw len (mkMem br io0r) iopr
      s!"{r.ret} {r.iopW} {r.iopR} {bytesHex r.mw.buf} {okWord (r.mw.ok && r.mr.ok)}"
    | _, _, _, _, _, _, _ => "bad-op"
  | _ => "bad-op"

end C03Driver

def main : IO Unit := runPure C03Driver.step
