import WuffsVerif.Common.Line
import WuffsVerif.Model.Linkage
import WuffsVerif.Model.Effects
import WuffsVerif.Model.EffectFlags
import WuffsVerif.Model.CNames
/-! Line driver for C10 (hermeticity).  Ops:
  decls <pkg> <item>*                -> sorted `kind|name|linkage|qual` list (or `-`)
  exports plain|static <pkg> <item>* -> sorted exported function names (or `-`)
     item:  S:<pub|pri>:<hex msg> | K:<pub|pri>:<NAME>:<scalar|array>
          | T:<pub|pri>:<name>:<classy|plain>:<iface,iface|-> | F:<pub|pri>:<recv|->:<name>:<pure|impure|coro>:<choosy|->
  undefs <sym>*                      -> ok | external:<sym>
  purecall <method> <effect>         -> unchanged (pure) | may-change
  tcheck (M <pure|impure> <stmt> <expr>)*  -> ok | reject-parse | reject-check   (prefix notation, see below;
                                        slice refs: sa i | sl v | sf f | pal | ss f <none|some expr> <none|some expr>)
  eflags <expr> / sflags <sref>      -> <pure|impure> <0|1>   (Effect(), SubExprHasEffect() of the AST node: ast.NewExpr)
  classify <name>                    -> class
-/
open WuffsVerif WuffsVerif.Line

namespace C10
open WuffsVerif.Linkage

def vis? : String → Option Bool
  | "pub" => some true | "pri" => some false | _ => none

def addItem (p : Pkg) (item : String) : Option Pkg :=
  match item.splitOn ":" with
  | ["S", v, hx] => do
      let pub ← vis? v
      let bs ← fromHex hx
      let msg := String.ofList (bs.map (fun b => Char.ofNat b.toNat))
      pure { p with statuses := p.statuses ++ [⟨pub, msg⟩] }
  | ["K", v, name, k] => do
      let pub ← vis? v
      pure { p with consts := p.consts ++ [⟨pub, name, k == "scalar"⟩] }
  | ["T", v, name, k, im] => do
      let pub ← vis? v
      let impls := if im == "-" then [] else im.splitOn ","
      pure { p with structs := p.structs ++ [⟨pub, name, k == "classy", impls⟩] }
  | ["F", v, recv, name, eff, ch] => do
      let pub ← vis? v
      let e ← match eff with
        | "pure" => some Effect.pure | "impure" => some Effect.impure | "coro" => some Effect.coro | _ => none
      pure { p with funcs := p.funcs ++ [⟨pub, if recv == "-" then "" else recv, name, e, ch == "choosy"⟩] }
  | _ => none

def parsePkg (name : String) (items : List String) : Option Pkg :=
  items.foldlM addItem ⟨name, [], [], [], []⟩

/-! prefix-notation parser for effect programs (driver only) -/
open WuffsVerif.Effects

def eff? : String → Option Eff
  | "pure" => some .pure | "impure" => some .impure | _ => none

partial def parseExpr : List String → Option (Expr × List String)
  | "lit" :: n :: r => n.toNat?.map (fun k => (.lit k, r))
  | "loc" :: v :: r => v.toNat?.map (fun k => (.loc k, r))
  | "fld" :: f :: r => f.toNat?.map (fun k => (.fld k, r))
  | "arg" :: r => some (.arg, r)
  | "arr" :: f :: i :: r => do let a ← f.toNat?; let b ← i.toNat?; pure (.arr a b, r)
  | "add" :: r => do
      let (l, r1) ← parseExpr r
      let (rr, r2) ← parseExpr r1
      pure (.add l rr, r2)
  | "call" :: mk :: m :: r => do
      let e ← eff? mk; let k ← m.toNat?
      let (a, r1) ← parseExpr r
      pure (.call e k a, r1)
  | _ => none

def parseOptExpr : List String → Option (Option Expr × List String)
  | "none" :: r => some (none, r)
  | "some" :: r => (parseExpr r).map (fun (e, r1) => (some e, r1))
  | _ => none

def parseSRef : List String → Option (SRef × List String)
  | "sa" :: i :: r => i.toNat?.map (fun n => (.arg n, r))
  | "sl" :: v :: r => v.toNat?.map (fun n => (.loc n, r))
  | "sf" :: f :: r => f.toNat?.map (fun n => (.fld n, r))
  | "pal" :: r => some (.pal, r)
  | "ss" :: f :: r => do
      let k ← f.toNat?
      let (lo, r1) ← parseOptExpr r
      let (hi, r2) ← parseOptExpr r1
      pure (.sub k lo hi, r2)
  | _ => none

partial def parseStmt : List String → Option (Stmt × List String)
  | "skip" :: r => some (.skip, r)
  | "choose" :: r => some (.choose, r)
  | "seq" :: r => do
      let (a, r1) ← parseStmt r
      let (b, r2) ← parseStmt r1
      pure (.seq a b, r2)
  | "ite" :: r => do
      let (c, r1) ← parseExpr r
      let (t, r2) ← parseStmt r1
      let (e, r3) ← parseStmt r2
      pure (.ite c t e, r3)
  | "loop" :: r => do
      let (c, r1) ← parseExpr r
      let (b, r2) ← parseStmt r1
      pure (.loop c b, r2)
  | "setloc" :: v :: r => do let k ← v.toNat?; let (e, r1) ← parseExpr r; pure (.setLoc k e, r1)
  | "setfld" :: f :: r => do let k ← f.toNat?; let (e, r1) ← parseExpr r; pure (.setFld k e, r1)
  | "setarg" :: r => do let (e, r1) ← parseExpr r; pure (.setArg e, r1)
  | "setarr" :: f :: i :: r => do
      let a ← f.toNat?; let b ← i.toNat?
      let (e, r1) ← parseExpr r
      pure (.setArr a b e, r1)
  | "setbuf" :: r => do
      let (s, r1) ← parseSRef r
      let (e, r2) ← parseExpr r1
      pure (.setBuf s e, r2)
  | "bind" :: v :: r => do let k ← v.toNat?; let (s, r1) ← parseSRef r; pure (.bind k s, r1)
  | "copy" :: mk :: r => do
      let e ← eff? mk
      let (d, r1) ← parseSRef r
      let (s, r2) ← parseSRef r1
      pure (.copy e d s, r2)
  | "calls" :: mk :: m :: r => do
      let e ← eff? mk; let k ← m.toNat?
      let (a, r1) ← parseExpr r
      pure (.callS e k a, r1)
  | _ => none

partial def parseProg (acc : Prog) : List String → Option Prog
  | [] => some acc
  | "M" :: ef :: r => do
      let e ← eff? ef
      let (b, r1) ← parseStmt r
      let (res, r2) ← parseExpr r1
      parseProg (acc ++ [⟨e, b, res⟩]) r2
  | _ => none

def flagsStr (f : Flags) : String :=
  (match f.eff with | .pure => "pure" | .impure => "impure") ++ (if f.sub then " 1" else " 0")

def step (l : List String) : String :=
  match l with
  | "decls" :: name :: items =>
    match parsePkg name items with
    | some p => declsText p
    | none => "bad-op"
  | "exports" :: mode :: name :: items =>
    match parsePkg name items with
    | some p => exportsText (mode == "static") p
    | none => "bad-op"
  | "undefs" :: syms =>
    match syms.find? (fun s => s != "-" && !(CNames.memNames.contains s || CNames.allocNames.contains s)) with
    | some s => "external:" ++ s
    | none => "ok"
  | ["purecall", _, eff] => if eff == "pure" then "unchanged" else "may-change"
  | "tcheck" :: rest =>
    match parseProg [] rest with
    | some p =>
      match tcheck p with
      | .ok => "ok" | .rejectParse => "reject-parse" | .rejectCheck => "reject-check"
    | none => "bad-op"
  | "eflags" :: rest =>
    match parseExpr rest with
    | some (e, []) => flagsStr e.flags
    | _ => "bad-op"
  | "sflags" :: rest =>
    match parseSRef rest with
    | some (s, []) => flagsStr s.flags
    | _ => "bad-op"
  | ["classify", n] => (CNames.classify n).str
  | _ => "bad-op"

end C10

def main : IO Unit := runPure C10.step
