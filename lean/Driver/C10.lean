import WuffsVerif.Common.Line
/-! Line driver for C10 — stub, not built yet. -/
open WuffsVerif.Line

def main : IO Unit := runPure (fun _ => "bad-op")
