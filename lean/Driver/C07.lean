import WuffsVerif.Common.Line
import WuffsVerif.Model.StdHash
import WuffsVerif.Model.Sha256Fips
import WuffsVerif.Model.StdDeflate
import WuffsVerif.Proof.StdDeflateTables
import WuffsVerif.Proof.StdDeflateDynCheck
import WuffsVerif.Model.StdSpecLzw
import WuffsVerif.Model.StdSpecGzip
/-! Line driver for C07 (std hashers and specification decoders).

  hash <adler32|crc32|crc64|sha256> <splits> <hex>
      splits: `-` (one update call) or `n,n,…` sizes of successive update calls (a call is made
      until the input is used up; the last size repeats; at least one call)
      -> `sum=<big-endian hex of the Wuffs-mirror model> spec=ok`   (spec=<hex> if the mirror differs
         from the mathematical specification of the hash of the whole string)
  hash0 <codec>            -> `sum=<hex>`  the checksum of a hasher that never saw an update call
  dec deflate <hex>        -> `ok len=<n> out=<hex | fnv64:<16 hex>>` | `err`     (RFC 1951 spec decoder)
  dec zlib <dict hex> <hex>                                                          (RFC 1950, preset dictionary)
  dec gzip <hex>           all members                                               (RFC 1952)
  dec gzip1 <hex>          first member only: `ok len= out= used=<bytes>`
  dec lzw <litwidth> <hex> GIF-flavour LZW: `ok len= out= used=` | `err truncated` | `err badcode`
  lzwenc <litwidth> <hex>  literal-only reference encoder -> hex
  wdec deflate <hex>       the MIRROR of std/deflate (Model/StdDeflate.lean: decode_blocks … decode_huffman_slow), one
                           transform_io call, closed source: `ok len= out= used=<source bytes consumed>` |
                           `err #deflate:_<status with _ for spaces>`
  wdyn deflate <hex>       the HYPOTHESIS `DynOK` of `wuffs_deflate_refines_spec` (Props/C07Deflate.lean), evaluated: the
                           specification's block loop and the mirror run side by side; at EVERY dynamic block
                           `headerOKb` (= `HeaderOK`: complete code-length and literal/length codes, an end-of-block
                           code, complete or one-code distance code — what makes the theorem applicable to the
                           stream) and, as a run-time double check of the proved `DynRefines`, its conclusion (mirror
                           accepts the header, same end bit, accumulator invariant, `tblOKb` and `agreeb` over all
                           2^15 windows for both tables) are evaluated, and after every block the two agree on
                           position and output: `ok` | `skip <why>` (the specification does not decode the stream) |
                           `bad <what>`
-/
open WuffsVerif WuffsVerif.Line WuffsVerif.StdHash

def hexN (digits : Nat) (v : Nat) : String :=
  String.ofList ((List.range digits).reverse.map (fun i => hexDigit ((v >>> (4 * i)) % 16)))

def fnv64 (b : Array UInt8) : UInt64 :=
  b.foldl (fun h x => (h ^^^ x.toUInt64) * 0x100000001b3) 0xcbf29ce484222325

def showOut (b : Array UInt8) : String :=
  if b.size ≤ 4096 then s!"len={b.size} out={toHex b.toList}"
  else s!"len={b.size} out=fnv64:{hexN 16 (fnv64 b).toNat}"

def parseSplits (s : String) : Option (List Nat) :=
  if s == "-" then some [] else (s.splitOn ",").mapM String.toNat?

/-- the successive chunks the C driver's `hash` command feeds (harness/cdrv/c/wv_run.h, `cmd_hash`):
    `v = sizes[next]; if next < n-1 then next++`, clipped to what is left; a zero size while `next`
    points at the last entry means "the rest"; stop when the input is used up (at least one call). -/
def chunksOf (sizes : List Nat) (x : List UInt8) : List (List UInt8) :=
  let sz := sizes.toArray
  let rec go (fuel : Nat) (next : Nat) (x : List UInt8) (acc : List (List UInt8)) :=
    match fuel with
    | 0 => acc.reverse
    | fuel + 1 =>
      let v := sz.getD next 0
      let next := if next + 1 < sz.size then next + 1 else next
      let n := if v > x.length then x.length else v
      let n := if n == 0 && next + 1 == sz.size && x.length > 0 then x.length else n
      let acc := x.take n :: acc
      let x := x.drop n
      if x.isEmpty then acc.reverse else go fuel next x acc
  match sizes with
  | [] => [x]
  | _ => go (x.length + sizes.length + 2) 0 x []

def hashOp (codec : String) (parts : List (List UInt8)) : Option String :=
  let whole := parts.flatten
  match codec with
  | "adler32" =>
    let m := (parts.foldl AdlerHasher.update {}).checksum
    let sp := adler32Spec whole
    some s!"sum={hexN 8 m} spec={if m == sp then "ok" else hexN 8 sp}"
  | "crc32" =>
    let m := (parts.foldl crc32Up 0).toNat
    let sp := (crc32Spec whole).toNat
    some s!"sum={hexN 8 m} spec={if m == sp then "ok" else hexN 8 sp}"
  | "crc64" =>
    let m := (parts.foldl crc64Up 0).toNat
    let sp := (crc64Spec whole).toNat
    some s!"sum={hexN 16 m} spec={if m == sp then "ok" else hexN 16 sp}"
  | "sha256" =>
    let m := (parts.foldl ShaHasher.update {}).checksum
    let sp := Sha256Fips.sha256 whole   -- FIPS 180-4 written from the standard (constants computed from the primes)
    let h (l : List UInt8) := if l.isEmpty then "-" else toHex l
    some s!"sum={h m} spec={if m == sp then "ok" else h sp}"
  | _ => none

/-- a Wuffs status of package deflate as the C driver prints it -/
def cStatus (msg : String) : String :=
  "#deflate:_" ++ String.ofList ((msg.toList.drop 1).map (fun c => if c == ' ' then '_' else c))

open WuffsVerif.StdDeflate in
/-- see `wdyn` above; `verbose`: append block counts -/
def dynEvidence (s : StdDeflate.Bytes) (verbose : Bool) : String := Id.run do
  let mut st : St := {}
  let mut p := 0
  let mut out : StdDeflate.Bytes := #[]
  let mut nblocks := 0
  let mut ndyn := 0
  for _ in [0 : 8 * s.size + 1] do
    if Flate.Spec.avail s p < 3 then return s!"skip spec-truncated"
    let typ := Flate.Spec.bitsLE s (p + 1) 2
    match fillHeader s st with
    | .error e => return s!"bad fillHeader@{p} {e}"
    | .ok st1 =>
      let st3 : St := { st1 with bits := st1.bits >>> 3, nBits := st1.nBits - 3 }
      -- the specification's block (the `r` of `Spec.blocks`)
      let mut r : Flate.Spec.BlockResult := .stop .corrupt p out
      if typ == 0 then r := Flate.Spec.storedBlock s (p + 3) out
      else if typ == 1 then
        r := Flate.Spec.huffBlock Flate.Spec.fixedLit Flate.Spec.fixedDist 7 5 s none 0 (8 * s.size + 1) (p + 3) out
      else if typ == 2 then
        match Flate.Spec.dynamicHeader s (p + 3) with
        | .ok hl hd minL p1 =>
          ndyn := ndyn + 1
          if !(headerOKb s (p + 3)) then
            return s!"bad dyn@{p}: DynOK fails: a code-length set of this header is not one std/deflate accepts"
          match initDynamicHuffman s st3 with
          | .error e => return s!"bad dyn@{p}: the mirror rejects a header the specification accepts: {e}"
          | .ok st' =>
            if 8 * st'.ri != p1 + st'.nBits || st'.nBits ≥ 8 || st'.bits != Flate.Spec.bitsLE s p1 st'.nBits then
              return s!"bad dyn@{p}: position/accumulator after the header"
            if st'.huffs0.size != 1024 || st'.huffs1.size != 1024 || st'.nHuffsBits0 > 15 || st'.nHuffsBits1 > 15
                || hl.maxLen > 15 || hd.maxLen > 15 || st'.out != st3.out then
              return s!"bad dyn@{p}: sizes"
            if !(tblOKb st'.huffs0 st'.nHuffsBits0) || !(tblOKb st'.huffs1 st'.nHuffsBits1) then
              return s!"bad dyn@{p}: a table is not prefix-replicated"
            if !(agreeb 15 st'.huffs0 st'.nHuffsBits0 hl valL) then return s!"bad dyn@{p}: H-L disagrees with the code"
            if !(agreeb 15 st'.huffs1 st'.nHuffsBits1 hd valD) then return s!"bad dyn@{p}: H-D disagrees with the code"
          r := Flate.Spec.huffBlock hl hd minL hd.minLen s none 0 (8 * s.size + 1) p1 out
        | _ => return s!"skip spec-rejects-header"
      match r with
      | .stop _ _ _ => return s!"skip spec-stops"
      | .next p1 out1 =>
        match decodeBlock s st with
        | .error e => return s!"bad block@{p}: {e}"
        | .ok (fin, st') =>
          if st'.out != out1 || 8 * st'.ri != p1 + st'.nBits || st'.nBits ≥ 8 then return s!"bad block@{p}: position/output"
          if fin != Flate.Spec.bitAt s p then return s!"bad block@{p}: final bit"
          nblocks := nblocks + 1
          if fin != 0 then return (if verbose then s!"ok blocks={nblocks} dyn={ndyn}" else "ok")
          st := st'
          p := p1
          out := out1
  return "bad out-of-fuel"

def c07Step (l : List String) : String :=
  match l with
  | ["wdyn", "deflate", hx] =>
    match fromHex hx with
    | some x => dynEvidence x.toArray false
    | none => "bad-op"
  | ["wdynv", "deflate", hx] =>
    match fromHex hx with
    | some x => dynEvidence x.toArray true
    | none => "bad-op"
  | ["wdec", "deflate", hx] =>
    match fromHex hx with
    | some x => match StdDeflate.inflate x.toArray with
      | .ok (o, n) => s!"ok {showOut o} used={n}"
      | .error e => "err " ++ cStatus e
    | none => "bad-op"
  | ["hash", codec, splits, hx] =>
    match parseSplits splits, fromHex hx with
    | some sz, some x => (hashOp codec (chunksOf sz x)).getD "bad-op"
    | _, _ => "bad-op"
  | ["hash0", codec] =>
    match codec with
    | "adler32" => s!"sum={hexN 8 ({} : AdlerHasher).checksum}"
    | "crc32" => s!"sum={hexN 8 0}"
    | "crc64" => s!"sum={hexN 16 0}"
    | "sha256" => s!"sum={toHex ({} : ShaHasher).checksum}"
    | _ => "bad-op"
  | ["dec", "deflate", hx] =>
    match fromHex hx with
    | some x => match Flate.Spec.inflate x.toArray with
      | some (o, _) => "ok " ++ showOut o
      | none => "err"
    | none => "bad-op"
  | ["dec", "zlib", dict, hx] =>
    match fromHex dict, fromHex hx with
    | some d, some x => match Flate.Spec.zlibDecode d.toArray x.toArray with
      | some (o, _) => "ok " ++ showOut o
      | none => "err"
    | _, _ => "bad-op"
  | ["dec", "gzip", hx] =>
    match fromHex hx with
    | some x => match StdSpec.Gzip.decode x.toArray with
      | some o => "ok " ++ showOut o
      | none => "err"
    | none => "bad-op"
  | ["dec", "gzip1", hx] =>
    match fromHex hx with
    | some x => match StdSpec.Gzip.member x.toArray with
      | some (o, n) => s!"ok {showOut o} used={n}"
      | none => "err"
    | none => "bad-op"
  | ["dec", "lzw", lw, hx] =>
    match lw.toNat?, fromHex hx with
    | some w, some x =>
      if w > 8 then "bad-op" else
      match StdSpec.Lzw.decode w x.toArray with
      | (.ok, o, n) => s!"ok {showOut o} used={n}"
      | (.truncated, _, _) => "err truncated"
      | (.badCode, _, _) => "err badcode"
    | _, _ => "bad-op"
  | ["lzwenc", lw, hx] =>
    match lw.toNat?, fromHex hx with
    | some w, some x => if w > 8 || w < 1 then "bad-op" else toHex (StdSpec.Lzw.encode w x)
    | _, _ => "bad-op"
  | _ => "bad-op"

def main : IO Unit := runPure c07Step
