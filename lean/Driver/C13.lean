import WuffsVerif.Common.Line
import WuffsVerif.Model.Rac.WriteBuffer
import WuffsVerif.Model.Rac.ChunkWriter
import WuffsVerif.Model.Rac.Writer
import WuffsVerif.Model.Rac.HCodec
import WuffsVerif.Model.Rac.Spec
import WuffsVerif.Model.Rac.DictSaver
/-! Line driver for C13 (lib/rac writer.go, chunk_writer.go; doc/spec/rac-spec.md).

Stateless ops
  wbuf <prev> <curr> <p> peek <n>      -> <hex0> <hex1>
  wbuf <prev> <curr> <p> advance <n>   -> panic | <prev[p:]> <curr>
  wbuf <prev> <curr> <p> apz           -> <n> <prev[p:]> <curr>
  wbuf <prev> <curr> <p> compact       -> <prev> <curr> <p>
  wbuf <prev> <curr> <p> extend <hex>  -> panic | <prev[p:]> <curr>
  wbuf <prev> <curr> <p> length        -> <n>
  strip <hex>                          -> <hex>
  clen <n>                             -> <n>
  gather <codec> <leaves>              -> tree            leaves: d:s:t:col,d:s:t:col,…
  calcsize <codec> <atEnd> <leaves>    -> <indexSize> tree
  windex <codec> <atEnd> <cFileSize> <dataCOffset> <indexCOffset> <rcl-list> <leaves> -> ok <hex> | err <word> <hex>
  spec <hex>                           -> ok <dFileSize> <n> <hash> <first chunks> | bad <rule>
  dictwrap <z|s> <seed> <len>          -> ok <wrappedLen> <hash>   (racdict.Saver.WrapResource with raczlib's / raczstd's refine,
                                                                    on <len> bytes of the generator `genBytes seed`)
  dictwraph <z|s> <hex>                -> ok <hex>
  dictload <ttag> <ter> <hex>          -> ok <hex> | err <word>    (racdict.Loader.Load on the bytes of CSecondary)
  dictsel <k> <base> <hex,hex,…|none>  -> ok <sec> <len> <marker> | err <word>   (racdict.Saver.Compress with refine = last k
                                          bytes and the test codec `fakeCompress`)
Stateful ops (after `reset`)
  cw <loc> <cpagesize> <temp> <failAt>                   -> ok
  addres <hex>                                           -> ok <id> <W> <T> | err <word> <W> <T>
  addchunk <dsize> <codec> <hex> <sec> <ter>             -> ok <W> <T> | err <word> <W> <T>
  cwclose                                                -> ok <W> <T> | err <word> <W> <T>
  w <loc> <cpagesize> <temp> <failAt> <cchunk> <dchunk> <codec> <oob> <cancut> <nilwriter> <res,res,…|none> [<failclose>]  -> ok
     (<nilwriter>: 1 = nil Writer, 2 = nil CodecWriter; <failclose>: the CodecWriter's Close fails)
  write <hex>                                            -> ok <n> <W> <T> | err <word> <W> <T>
  close                                                  -> ok <W> <T> | err <word> <W> <T>
  specself                                               -> like spec, on everything written to Writer so far
  decodeself                                             -> ok <hex> | bad <rule>
<W>/<T>: bytes handed to Writer / TempFile during this op.
-/
open WuffsVerif WuffsVerif.Line WuffsVerif.Rac

def hashStr (s : String) : Nat :=
  s.foldl (fun h c => (h * 16777619 + c.toNat) % 18446744073709551616) 14695981039346656037

partial def showTree (n : WNode) : String :=
  if n.isBranch || !n.resources.isEmpty then
    s!"B({n.dRangeSize},{showNatList n.resources},{n.cOffsetCLength},{n.codec})" ++ "{" ++
      ",".intercalate (n.children.map showTree) ++ "}"
  else s!"L({n.dRangeSize},{n.secondary},{n.tertiary},{n.cOffsetCLength})"

def showTreeMaybeHashed (n : WNode) : String :=
  let s := showTree n
  if s.length > 20000 then s!"hash {s.length} {hashStr s}" else s

def parseLeaves (codec : Nat) (s : String) : Option (List WNode) :=
  if s == "-" then some [] else
  (s.splitOn ",").mapM fun item =>
    match (item.splitOn ":").map String.toNat? with
    | [some d, some sec, some ter, some col] => some (WNode.leaf d col sec ter codec)
    | _ => none

def showChunk (c : Spec.Chunk) : String :=
  s!"{c.dRange.lo}-{c.dRange.hi}:{c.cPrimary.lo}-{c.cPrimary.hi}:{c.cSecondary.lo}-{c.cSecondary.hi}:{c.cTertiary.lo}-{c.cTertiary.hi}:{c.stag}:{c.ttag}:{c.codec}"

def chunkHash (cs : List Spec.Chunk) : Nat :=
  cs.foldl (fun h c =>
    [c.dRange.lo, c.dRange.hi, c.cPrimary.lo, c.cPrimary.hi, c.cSecondary.lo, c.cSecondary.hi,
     c.cTertiary.lo, c.cTertiary.hi, c.stag, c.ttag, c.codec].foldl
      (fun h x => (h * 1000003 + x) % 18446744073709551616) h) 7

def specVerdict (file : Array UInt8) : String :=
  match Spec.chunks file with
  | .error e => "bad " ++ e.word
  | .ok (d, cs) =>
    if !Spec.tiles 0 cs d then "bad tiling" else
    s!"ok {d} {cs.length} {chunkHash cs} " ++
      (if cs.isEmpty then "-" else ";".intercalate ((cs.take 100).map showChunk))

/-- the byte generator shared with the harness (`genBytes` in dict.go): a 64-bit LCG, top byte -/
def genBytes (seed n : Nat) : Bytes := Id.run do
  let mut x := seed % 18446744073709551616
  let mut out : Array UInt8 := Array.mkEmpty n
  for _ in [0:n] do
    x := (x * 6364136223846793005 + 1442695040888963407) % 18446744073709551616
    out := out.push (UInt8.ofNat (x >>> 56))
  return out.toList

def hashBytes (b : Bytes) : Nat :=
  b.foldl (fun h c => (h * 16777619 + c.toNat) % 18446744073709551616) 14695981039346656037

/-- the test codec of the `dictsel` op (twin of `fakeCompress` in dict.go): the dictionary's first two bytes
are the length of the "compressed" form, 0xFFFF is an error, the content is the dictionary's last byte -/
def fakeCompress (base : Nat) (_p _q dict : Bytes) : Except DictW.DErr Bytes :=
  match dict with
  | [] => .ok (List.replicate base 0xAA)
  | [a] => .ok (List.replicate a.toNat a)
  | a :: b :: rest =>
    let n := a.toNat + 256 * b.toNat
    if n == 0xFFFF then .error .codec else .ok (List.replicate n ((b :: rest).getLast?.getD 0))

def dErrWord : DictW.DErr → String
  | .dictionaryIsTooLong => "dictionary-too-long"
  | .invalidDictionary => "invalid-dictionary"
  | .codec => "codec-error"

structure St where
  cw : Option CW := none
  w : Option (Writer × HCodec.Variant) := none
  wSeen : Nat := 0
  tSeen : Nat := 0
  allW : List Bytes := []   -- newest first
deriving Inhabited

/-- pieces added since the last op, oldest first -/
def delta (rev : List Bytes) (n seen : Nat) : Bytes := (rev.take (n - seen)).reverse.flatten

def report (s : St) (io : IOSt) (res : String) : St × String :=
  let dw := delta io.wRev io.wN s.wSeen
  let dt := delta io.tRev io.tN s.tSeen
  ({ s with wSeen := io.wN, tSeen := io.tN, allW := if dw.isEmpty then s.allW else dw :: s.allW },
   s!"{res} {toHex dw} {toHex dt}")

def resStr (e : Option Err) (okExtra : String := "") : String :=
  match e with
  | none => "ok" ++ okExtra
  | some e => "err " ++ e.word

def hDecompress (codec : Nat) (v : HCodec.Variant) : Nat → Bytes → Bytes → Bytes → Option Bytes :=
  fun c p _ _ => if c == codec && c == v.codec then HCodec.decompress p else none

def startW (s : St) (loc cps temp failAt cchunk dchunk codec oob cancut nilw res failClose : String) : St × String :=
    match cps.toNat?, temp.toNat?, failAt.toNat?, cchunk.toNat?, dchunk.toNat?, codec.toNat? with
    | some cps, some temp, some failAt, some cchunk, some dchunk, some codec =>
      let resources : Option (List Bytes) := if res == "none" then some [] else (res.splitOn ",").mapM fromHex
      match resources with
      | some resources =>
        let v : HCodec.Variant := { codec := codec, oob := oob == "1", canCut := cancut == "1", failClose := failClose == "1" }
        let w : Writer := { nilWriter := nilw == "1", nilCodecWriter := nilw == "2", indexAtStart := loc == "1", tempKind := temp, cPageSize := cps,
                            cChunkSizeCfg := cchunk, dChunkSizeCfg := dchunk, resourcesData := resources,
                            chunkWriter := { io := { failAt := failAt } } }
        ({ w := some (w, v) }, "ok")
      | none => (s, "bad-op")
    | _, _, _, _, _, _ => (s, "bad-op")

def step (s : St) (l : List String) : St × String :=
  match l with
  | ["reset"] => ({}, "ok")
  | "wbuf" :: prev :: curr :: p :: rest =>
    match fromHex prev, fromHex curr, p.toNat? with
    | some prev, some curr, some p =>
      let b : WBuf := { prev, curr, p }
      let st (b : WBuf) : String := s!"{toHex (b.prev.drop b.p)} {toHex b.curr}"
      match rest with
      | ["peek", n] => match n.toNat? with
        | some n => let (a, c) := b.peek n; (s, s!"{toHex a} {toHex c}")
        | none => (s, "bad-op")
      | ["advance", n] => match n.toNat? with
        | some n => (s, if b.advanceOk n then st (b.advance n) else "panic")
        | none => (s, "bad-op")
      | ["apz"] => let (b', n) := b.advancePastLeadingZeroes; (s, s!"{n} {st b'}")
      | ["compact"] => let b' := b.compact; (s, s!"{toHex b'.prev} {toHex b'.curr} {b'.p}")
      | ["extend", h] => match fromHex h with
        | some h => (s, match b.extend h with | some b' => st b' | none => "panic")
        | none => (s, "bad-op")
      | ["length"] => (s, toString b.length)
      | _ => (s, "bad-op")
    | _, _, _ => (s, "bad-op")
  | ["strip", h] => match fromHex h with
    | some h => (s, toHex (stripTrailingZeroes h))
    | none => (s, "bad-op")
  | ["clen", n] => match n.toNat? with
    | some n => (s, toString (calcCLength n))
    | none => (s, "bad-op")
  | ["gather", codec, leaves] =>
    match codec.toNat? with
    | some codec => match parseLeaves codec leaves with
      | some (x :: xs) => (s, showTreeMaybeHashed (gather (x :: xs) (codecIsLong codec)))
      | _ => (s, "bad-op")
    | none => (s, "bad-op")
  | ["calcsize", codec, atEnd, leaves] =>
    match codec.toNat? with
    | some codec => match parseLeaves codec leaves with
      | some (x :: xs) =>
        let (root, size) := (gather (x :: xs) (codecIsLong codec)).calcEncodedSize 0 (atEnd == "1")
        (s, s!"{size} {showTreeMaybeHashed root}")
      | _ => (s, "bad-op")
    | none => (s, "bad-op")
  | ["windex", codec, atEnd, cFileSize, dco, ico, rcl, leaves] =>
    match codec.toNat?, cFileSize.toNat?, dco.toNat?, ico.toNat?, parseNatList rcl with
    | some codec, some cFileSize, some dco, some ico, some rcl =>
      match parseLeaves codec leaves with
      | some (x :: xs) =>
        let (root, _) := (gather (x :: xs) (codecIsLong codec)).calcEncodedSize 0 (atEnd == "1")
        let nw : NodeWriter := { cFileSize := cFileSize, dataCOffset := dco, indexCOffset := ico, resourcesCOffCLens := rcl.toArray }
        let (io, e) := writeIndex nw root (atEnd == "1") {}
        (s, s!"{resStr e} {toHex io.wBytes}")
      | _ => (s, "bad-op")
    | _, _, _, _, _ => (s, "bad-op")
  | ["dictwrap", c, seed, n] =>
    match seed.toNat?, n.toNat? with
    | some seed, some n =>
      let refine := if c == "z" then DictW.refineZlib else DictW.refineZstd
      (s, match DictW.wrapResource refine (genBytes seed n) with
        | .ok w => s!"ok {w.length} {hashBytes w}"
        | .error e => "err " ++ dErrWord e)
    | _, _ => (s, "bad-op")
  | ["dictwraph", c, h] =>
    match fromHex h with
    | some h =>
      let refine := if c == "z" then DictW.refineZlib else DictW.refineZstd
      (s, match DictW.wrapResource refine h with
        | .ok w => "ok " ++ toHex w
        | .error e => "err " ++ dErrWord e)
    | none => (s, "bad-op")
  | ["dictload", ttag, ter, h] =>
    match ttag.toNat?, fromHex h with
    | some ttag, some h =>
      (s, match DictW.load h (ter == "1") ttag with
        | .ok d => "ok " ++ toHex d
        | .error e => "err " ++ dErrWord e)
    | _, _ => (s, "bad-op")
  | ["dictsel", k, base, res] =>
    match k.toNat?, base.toNat? with
    | some k, some base =>
      let resources : Option (List Bytes) := if res == "none" then some [] else (res.splitOn ",").mapM fromHex
      match resources with
      | some resources =>
        (s, match DictW.saverCompress (fakeCompress base) (DictW.lastN k) [] [] resources with
          | .ok (out, sec) => s!"ok {sec} {out.length} {toHex (out.take 1)}"
          | .error e => "err " ++ dErrWord e)
      | none => (s, "bad-op")
    | _, _ => (s, "bad-op")
  | ["spec", h] => match fromHex h with
    | some h => (s, specVerdict h.toArray)
    | none => (s, "bad-op")
  | ["specself"] => (s, specVerdict s.allW.reverse.flatten.toArray)
  | ["decodeself"] =>
    match s.w with
    | some (_, v) =>
      (s, match Spec.decode s.allW.reverse.flatten.toArray (hDecompress v.codec v) with
        | .ok d => "ok " ++ toHex d
        | .error e => "bad " ++ e.word)
    | none => (s, "bad-op")
  | ["cw", loc, cps, temp, failAt] =>
    match cps.toNat?, temp.toNat?, failAt.toNat? with
    | some cps, some temp, some failAt =>
      ({ cw := some { indexAtStart := loc == "1", cPageSize := cps, tempKind := temp, io := { failAt := failAt } } }, "ok")
    | _, _, _ => (s, "bad-op")
  | ["addres", h] =>
    match s.cw, fromHex h with
    | some cw, some h =>
      let (cw, id, e) := cw.addResource h
      report { s with cw := some cw } cw.io (resStr e s!" {id}")
    | _, _ => (s, "bad-op")
  | ["addchunk", dsize, codec, h, sec, ter] =>
    match s.cw, dsize.toNat?, codec.toNat?, fromHex h, sec.toNat?, ter.toNat? with
    | some cw, some dsize, some codec, some h, some sec, some ter =>
      let (cw, e) := cw.addChunk dsize codec h sec ter
      report { s with cw := some cw } cw.io (resStr e)
    | _, _, _, _, _, _ => (s, "bad-op")
  | ["cwclose"] =>
    match s.cw with
    | some cw =>
      let (cw, e) := cw.close
      report { s with cw := some cw } cw.io (resStr e)
    | none => (s, "bad-op")
  | ["w", loc, cps, temp, failAt, cchunk, dchunk, codec, oob, cancut, nilw, res] =>
    startW s loc cps temp failAt cchunk dchunk codec oob cancut nilw res "0"
  | ["w", loc, cps, temp, failAt, cchunk, dchunk, codec, oob, cancut, nilw, res, failClose] =>
    startW s loc cps temp failAt cchunk dchunk codec oob cancut nilw res failClose
  | ["write", h] =>
    match s.w, fromHex h with
    | some (w, v), some h =>
      let (w, n, e) := w.Write (HCodec.codecW v) h
      report { s with w := some (w, v) } w.chunkWriter.io (resStr e s!" {n}")
    | _, _ => (s, "bad-op")
  | ["close"] =>
    match s.w with
    | some (w, v) =>
      let (w, e) := w.Close (HCodec.codecW v)
      report { s with w := some (w, v) } w.chunkWriter.io (resStr e)
    | none => (s, "bad-op")
  | _ => (s, "bad-op")

def main : IO Unit := run ({} : St) step
