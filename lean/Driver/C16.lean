import WuffsVerif.Common.Line
import WuffsVerif.Model.Flate.Spec
import WuffsVerif.Model.Flate.Cut
import WuffsVerif.Model.Flate.ZlibCut
/-! Line driver for C16 (lib/flatecut, lib/zlibcut) and the shared DEFLATE spec decoder.
  cut  <limit> <hex>              -> ok <eLen> <dLen> <hex of the whole modified buffer> | err <class>
  cutw <limit> <hex>              -> ok <eLen> <dLen> <hex buffer> <hex written to w>   | err <class>
  zcut <limit> <hex>              -> ok <eLen> <dLen> <hex buffer> <hex written to w>   | err <class>
  inflate <cap|-> <dicthex> <hex> -> done <consumed> <outhex> | truncated <outhex> | corrupt <outhex> | capped <n>
  zinflate <dicthex> <hex>        -> ok <consumed> <outhex> | err
  adler <hex>                     -> <decimal>
  construct <lengths>             -> ok <endCodeBits> <endCodeNBits> <counts> <symbols[:k]> <lookUpTable> | err <class>
  slowdecode|decode <lengths> <hex> <index> <bits> <nBits> -> <sym> <index> <bits> <nBits> | err <class>
  take <hex> <index> <bits> <nBits> <n>                   -> <ret> <index> <bits> <nBits>
-/
open WuffsVerif WuffsVerif.Line WuffsVerif.Flate

def hexA (a : Array UInt8) : String := toHex a.toList

def parseHexA (s : String) : Option (Array UInt8) := (fromHex s).map List.toArray

def showCut (withW : Bool) : Except Cut.Err Cut.CutResult → String
  | .error e => "err " ++ e.word
  | .ok r => "ok " ++ toString r.encodedLen ++ " " ++ toString r.decodedLen ++ " " ++ hexA r.encoded ++
      (if withW then " " ++ hexA r.written else "")

def mkBitstream (bytes : Array UInt8) (index bits nBits : String) : Option Cut.Bitstream := do
  let i ← index.toNat?
  let b ← bits.toNat?
  let n ← nBits.toNat?
  pure { bytes := bytes, index := i, bits := UInt64.ofNat b, nBits := n }

def showDec : Except Cut.Err (Int × Cut.Bitstream) → String
  | .error e => "err " ++ e.word
  | .ok (s, b) => toString s ++ " " ++ toString b.index ++ " " ++ toString b.bits.toNat ++ " " ++ toString b.nBits

def c16Step (l : List String) : String :=
  match l with
  | [op, limit, hex] =>
    match limit.toInt?, parseHexA hex with
    | some lim, some enc =>
      match op with
      | "cut" => showCut false (Cut.Cut false enc lim)
      | "cutw" => showCut true (Cut.Cut true enc lim)
      | "zcut" => showCut true (ZlibCut.Cut enc lim)
      | _ => "bad-op"
    | _, _ =>
      if op == "zinflate" then
        match parseHexA limit, parseHexA hex with
        | some dict, some s =>
          match Spec.zlibDecode dict s with
          | some (out, n) => "ok " ++ toString n ++ " " ++ hexA out
          | none => "err"
        | _, _ => "bad-op"
      else "bad-op"
  | ["inflate", cap, dict, hex] =>
    match parseHexA dict, parseHexA hex with
    | some d, some s =>
      let c : Option (Option Nat) := if cap == "-" then some none else cap.toNat?.map some
      match c with
      | none => "bad-op"
      | some c =>
        let r := Spec.inflateRaw d s c
        if Spec.capReached c r.out.size then "capped " ++ hexA (r.out.extract 0 (c.getD 0)) else
        match r.status with
        | .done => "done " ++ toString ((r.pos + 7) / 8) ++ " " ++ hexA r.out
        | .truncated => "truncated " ++ hexA r.out
        | .corrupt => "corrupt " ++ hexA r.out
        | .capped => "capped " ++ hexA (r.out.extract 0 (c.getD 0))
    | _, _ => "bad-op"
  | ["adler", hex] =>
    match parseHexA hex with
    | some s => toString (Spec.adler32 s)
    | none => "bad-op"
  | ["construct", lens] =>
    match parseNatList lens with
    | none => "bad-op"
    | some ls =>
      match Cut.Huffman.zero.construct ls.toArray with
      | .error e => "err " ++ e.word
      | .ok (h, ecb, ecn) =>
        let k := (ls.filter (· ≠ 0)).length
        "ok " ++ toString ecb ++ " " ++ toString ecn ++ " " ++ showNatList h.counts.toList ++ " " ++
          showIntList (h.symbols.toList.take k) ++ " " ++ showNatList h.lookUpTable.toList
  | [op, lens, hex, index, bits, nBits] =>
    match parseNatList lens, parseHexA hex with
    | some ls, some bytes =>
      match mkBitstream bytes index bits nBits with
      | none => "bad-op"
      | some b =>
        if op == "take" then "bad-op" else
        match Cut.Huffman.zero.construct ls.toArray with
        | .error e => "err " ++ e.word
        | .ok (h, _, _) =>
          if op == "slowdecode" then showDec (h.slowDecode b)
          else if op == "decode" then showDec (h.decode b)
          else "bad-op"
    | _, _ =>
      -- take <hex> <index> <bits> <nBits> <n>
      if op == "take" then
        match parseHexA lens, nBits.toNat? with
        | some bytes, some n =>
          match mkBitstream bytes hex index bits with
          | some b => let (r, b) := b.take n; showDec (.ok (r, b))
          | none => "bad-op"
        | _, _ => "bad-op"
      else "bad-op"
  | _ => "bad-op"

def main : IO Unit := runPure c16Step
