import WuffsVerif.Common.Line
import WuffsVerif.Model.Jpeg.Encoder
import WuffsVerif.Model.Jpeg.Dct
import WuffsVerif.Model.Jpeg.Spec
/-! Line driver for C18 (lib/lowleveljpeg).  Stateful: one `Encoder`.

  case <text>                                  -> ok                (fresh zero-value Encoder)
  reset <wfail> <colorType> <w> <h> <q0> <q1>  -> ok <hex> | err <class> | panic
        q0/q1: 64 bytes hex each, or `- -` for nil options
  add <N> <wfail> <block>{N} | add <N> <wfail> nil
        block = 64 comma-separated int16        -> ok <hex> | err <class> | panic
  state                                        -> st <hasErr> <colorType> <prevDC0> <prevDC1> <prevDC2> <numAddsRemaining> <bitsV> <bitsN>
  setadds <n>                                  -> ok                (VerifSetNumAddsRemaining)
  div <a> <b>                                  -> v <int>
  fdct <64 bytes hex>                          -> v <64 comma-separated ints>
  idct <64 comma-separated ints>               -> v <64 bytes hex>
  stdquant <which> <quality>                   -> v <64 bytes hex>
  specdecode <hex>                             -> none | ok <w> <h> <id:h:v:tq,…> <qtab hex,…> <block;block;…>
  per-function ops (scratch Encoder, nothing kept):
  emitbits <bitsV> <bitsN> <v> <n>             -> v <hex> <bitsV'> <bitsN'>
  huffrun <bitsV> <bitsN> <which> <run> <value> -> v <hex> <bitsV'> <bitsN'>
  encblock <bitsV> <bitsN> <p0> <p1> <p2> <q0> <q1> <comp> <block>
                                               -> v <hex> <bitsV'> <bitsN'> <p0'> <p1'> <p2'>
-/
open WuffsVerif WuffsVerif.Line WuffsVerif.Jpeg

def parseInts (s : String) : Option (Array Int) :=
  ((s.splitOn ",").mapM String.toInt?).map List.toArray

def showInts (l : List Int) : String := ",".intercalate (l.map toString)

def natsToHex (a : List Nat) : String := toHex (a.map UInt8.ofNat)

def parseQuant (s : String) : Option Quant :=
  (fromHex s).map (fun l => (l.map UInt8.toNat).toArray)

def errWord : Err → String
  | .badAddNForColorType => "bad-addn"
  | .badArgument => "bad-argument"
  | .invalidBlockI16 => "invalid-block"
  | .previouslyReturnedError => "previously-returned"
  | .tooManyAddNCalls => "too-many"
  | .write => "write"

def showRes : Res → String
  | .ok w => "ok " ++ natsToHex w.toList
  | .err e => "err " ++ errWord e
  | .panic => "panic"

def parseBool (s : String) : Option Bool :=
  if s == "0" then some false else if s == "1" then some true else none

def showDecoded (d : Spec.Decoded) : String :=
  let comps := ",".intercalate (d.comps.map (fun c => s!"{c.id}:{c.h}:{c.v}:{c.tq}"))
  let qt := ",".intercalate (d.qtabs.map natsToHex)
  let blocks := ";".intercalate (d.blocks.map showInts)
  s!"ok {d.width} {d.height} {comps} {qt} {if d.blocks.isEmpty then "-" else blocks}"

def c18Step (e : Encoder) (l : List String) : Encoder × String :=
  match l with
  | "case" :: _ => ({}, "ok")
  | ["reset", wf, ct, w, h, q0, q1] =>
    match parseBool wf, ct.toNat?, w.toInt?, h.toInt? with
    | some wf, some ct, some w, some h =>
      let qs : Option (Option (Quant × Quant)) :=
        if q0 == "-" && q1 == "-" then some none
        else match parseQuant q0, parseQuant q1 with
          | some a, some b => if a.size == 64 && b.size == 64 then some (some (a, b)) else none
          | _, _ => none
      match qs with
      | none => (e, "bad-op")
      | some qs =>
        let (e, r) := reset e wf ct w h qs
        (e, showRes r)
    | _, _, _, _ => (e, "bad-op")
  | "add" :: n :: wf :: blocks =>
    match n.toNat?, parseBool wf with
    | some n, some wf =>
      if n != 1 && n != 3 && n != 6 then (e, "bad-op")
      else if blocks == ["nil"] then
        let (e, r) := add e n wf none
        (e, showRes r)
      else
        match blocks.mapM parseInts with
        | some bs =>
          if bs.length != n || bs.any (fun b => b.size != 64) then (e, "bad-op")
          else
            let (e, r) := add e n wf (some bs)
            (e, showRes r)
        | none => (e, "bad-op")
    | _, _ => (e, "bad-op")
  | ["state"] =>
    (e, s!"st {if e.hasReturnedError then 1 else 0} {e.colorType} {e.prevDC0} {e.prevDC1} {e.prevDC2} {e.numAddsRemaining} {e.bitsV} {e.bitsN}")
  | ["setadds", n] =>
    match n.toNat? with
    | some n => ({ e with numAddsRemaining := n }, "ok")
    | none => (e, "bad-op")
  | ["div", a, b] =>
    match a.toInt?, b.toInt? with
    | some a, some b => if b == 0 then (e, "bad-op") else (e, s!"v {div a b}")
    | _, _ => (e, "bad-op")
  | ["fdct", h] =>
    match fromHex h with
    | some bs =>
      if bs.length != 64 then (e, "bad-op")
      else (e, "v " ++ showInts (Dct.forwardDCT (bs.map UInt8.toNat).toArray).toList)
    | none => (e, "bad-op")
  | ["idct", cs] =>
    match parseInts cs with
    | some a => if a.size != 64 then (e, "bad-op") else (e, "v " ++ natsToHex (Dct.inverseDCT a).toList)
    | none => (e, "bad-op")
  | ["stdquant", which, quality] =>
    match which.toNat?, quality.toInt? with
    | some w, some q => (e, "v " ++ natsToHex (setToStandardValues w q).toList)
    | _, _ => (e, "bad-op")
  | ["emitbits", bv, bn, v, n] =>
    match bv.toNat?, bn.toNat?, v.toNat?, n.toNat? with
    | some bv, some bn, some v, some n =>
      let (e', out) := emitBits { bitsV := bv, bitsN := bn } #[] v n
      (e, s!"v {natsToHex out.toList} {e'.bitsV} {e'.bitsN}")
    | _, _, _, _ => (e, "bad-op")
  | ["huffrun", bv, bn, wh, run, value] =>
    match bv.toNat?, bn.toNat?, wh.toNat?, run.toNat?, value.toInt? with
    | some bv, some bn, some wh, some run, some value =>
      let (e', out) := emitHuffmanRun { bitsV := bv, bitsN := bn } #[] wh run value
      (e, s!"v {natsToHex out.toList} {e'.bitsV} {e'.bitsN}")
    | _, _, _, _, _ => (e, "bad-op")
  | ["encblock", bv, bn, p0, p1, p2, q0, q1, comp, blk] =>
    match bv.toNat?, bn.toNat?, p0.toInt?, p1.toInt?, p2.toInt? with
    | some bv, some bn, some p0, some p1, some p2 =>
      match parseQuant q0, parseQuant q1, comp.toNat?, parseInts blk with
      | some q0, some q1, some comp, some b =>
        if q0.size != 64 || q1.size != 64 || b.size != 64 || comp > 2 then (e, "bad-op")
        else
          let e0 : Encoder := { bitsV := bv, bitsN := bn, prevDC0 := p0, prevDC1 := p1, prevDC2 := p2,
                                quants0 := q0, quants1 := q1 }
          let (e', out) := encodeBlock e0 #[] comp b
          (e, s!"v {natsToHex out.toList} {e'.bitsV} {e'.bitsN} {e'.prevDC0} {e'.prevDC1} {e'.prevDC2}")
      | _, _, _, _ => (e, "bad-op")
    | _, _, _, _, _ => (e, "bad-op")
  | ["specdecode", h] =>
    match fromHex h with
    | some bs =>
      match Spec.decode (bs.map UInt8.toNat) with
      | some d => (e, showDecoded d)
      | none => (e, "none")
    | none => (e, "bad-op")
  | _ => (e, "bad-op")

def main : IO Unit := run ({} : Encoder) c18Step
