import WuffsVerif.Common.Line
import WuffsVerif.Model.Liveness
import WuffsVerif.Model.Scratch
import WuffsVerif.Model.SplitExpr
/-! Line driver for C05.  Ops:
  live <nvars> <abstract body tokens…>   -> r [i,j,…]   (sorted resumable variable indexes)
The body grammar is the one written by /repo/internal/cgen/verif_export_c05.go.
  prog <ops> <accreg> <src sizes|-> <dst sizes|-> <hex>  -> st=… out=… ri=… acc=… susp=…
    ops: `;`-separated  rd:<size>:<n>:<b|l>:<dst>  skip:<reg>  skip1  wr:<add|xor|fst>:<a>:<b>
  case <status names,…> | <name> <nvars> | <tagged abstract body> | <tag> <description> ; … [| <callee name> <nvars> | … | …]*   -> defined
    (a coroutine and its callees as verif_export_c05.go describes them; current until the next `case`)
  split <src sizes|-> <dst sizes|-> <hex>   -> st=… out=… ri=… acc=… g1=… susp=…
    (the current coroutine run by Model/SplitRun.lean under that chunking, saving only `resumables`)
-/
open WuffsVerif WuffsVerif.Line WuffsVerif.Liveness WuffsVerif.Scratch WuffsVerif.Split

namespace C05Parse

abbrev Toks := List String

def parseNats : Toks → List Nat → Option (List Nat × Toks)
  | ")" :: rest, acc => some (acc.reverse, rest)
  | t :: rest, acc => match t.toNat? with
    | some i => parseNats rest (i :: acc)
    | none => none
  | [], _ => none

/-- optional `t<k>` -/
def parseTag : Toks → Nat × Toks
  | t :: rest =>
    if t.startsWith "t" then
      match (t.drop 1).toString.toNat? with
      | some k => (k, rest)
      | none => (0, t :: rest)
    else (0, t :: rest)
  | [] => (0, [])

/-- `( E n|c|ci [t<tag>] i* )` -/
def parseEx : Toks → Option (Ex × Toks)
  | "(" :: "E" :: fl :: rest =>
    let (tag, rest) := parseTag rest
    match parseNats rest [] with
    | some (vs, rest) =>
      match fl with
      | "n" => some (⟨false, false, vs, tag⟩, rest)
      | "c" => some (⟨true, false, vs, tag⟩, rest)
      | "ci" => some (⟨true, true, vs, tag⟩, rest)
      | _ => none
    | none => none
  | _ => none

def parseExOpt : Toks → Option (Option Ex × Toks)
  | "-" :: rest => some (none, rest)
  | ts => (parseEx ts).map (fun (e, r) => (some e, r))

def parseLhs : Toks → Option (Lhs × Toks)
  | "-" :: rest => some (Lhs.none, rest)
  | "(" :: "V" :: i :: ")" :: rest => i.toNat?.map (fun i => (Lhs.var i, rest))
  | ts => (parseEx ts).map (fun (e, r) => (Lhs.expr e, r))

mutual
partial def parseStmt : Toks → Option (Stmt × Toks)
  | "(" :: "A" :: op :: rest => do
    let op ← match op with
      | "e" => some AOp.eq | "q" => some AOp.eqQuestion | "o" => some AOp.other | _ => none
    let (lhs, rest) ← parseLhs rest
    let (rhs, rest) ← parseEx rest
    match rest with
    | ")" :: rest => some (.assign op lhs rhs, rest)
    | _ => none
  | "(" :: "X" :: rest => do
    let (e, rest) ← parseEx rest
    match rest with
    | ")" :: rest => some (.expr e, rest)
    | _ => none
  | "(" :: "M" :: rest => do
    let (io, rest) ← parseEx rest
    let (a1, rest) ← parseExOpt rest
    let (hp, rest) ← parseExOpt rest
    let (b, rest) ← parseBlock rest
    match rest with
    | ")" :: rest => some (.iomanip io a1 hp b, rest)
    | _ => none
  | "(" :: "I" :: rest => do
    let (c, rest) ← parseEx rest
    let (t, rest) ← parseBlock rest
    let (e, rest) ← parseBlock rest
    match rest with
    | ")" :: rest => some (.ite c t e, rest)
    | _ => none
  | "(" :: "J" :: kw :: d :: ")" :: rest => do
    let d ← d.toNat?
    match kw with
    | "b" => some (.jump true d, rest)
    | "c" => some (.jump false d, rest)
    | _ => none
  | "(" :: "R" :: kw :: rest => do
    let (e, rest) ← parseEx rest
    let y ← match kw with | "r" => some false | "y" => some true | _ => none
    match rest with
    | ")" :: rest => some (.ret y e, rest)
    | _ => none
  | "(" :: "D" :: i :: ")" :: rest => i.toNat?.map (fun i => (.var i, rest))
  | "(" :: "W" :: tf :: rest => do
    let wt ← match tf with | "t" => some true | "f" => some false | _ => none
    let (c, rest) ← parseEx rest
    let (b, rest) ← parseBlock rest
    match rest with
    | ")" :: rest => some (.while wt c b, rest)
    | _ => none
  | _ => none

partial def parseStmts (ts : Toks) (acc : List Stmt) : Option (List Stmt × Toks) :=
  match ts with
  | "]" :: rest => some (acc.reverse, rest)
  | ts => do
    let (s, rest) ← parseStmt ts
    parseStmts rest (s :: acc)

partial def parseBlock : Toks → Option (List Stmt × Toks)
  | "[" :: rest => parseStmts rest []
  | _ => none
end

def parseBOp : String → Option BOp
  | "add" => some .add | "sub" => some .sub | "mul" => some .mul
  | "madd" => some .madd | "msub" => some .msub | "mmul" => some .mmul | "mshl" => some .mshl
  | "shl" => some .shl | "shr" => some .shr | "and" => some .band | "or" => some .bor | "xor" => some .bxor
  | "lt" => some .lt | "le" => some .le | "gt" => some .gt | "ge" => some .ge
  | "eq" => some .eq | "ne" => some .ne | "land" => some .land | "lor" => some .lor
  | _ => none

/-- `k<n> | v<i> | f<i> | a<i> | ( <bop> <w> e e )` -/
partial def parseWExpr : Toks → Option (WExpr × Toks)
  | "(" :: op :: w :: rest => do
    let op ← parseBOp op
    let w ← w.toNat?
    let (a, rest) ← parseWExpr rest
    let (b, rest) ← parseWExpr rest
    match rest with
    | ")" :: rest => some (.bin op w a b, rest)
    | _ => none
  | t :: rest =>
    match (t.drop 1).toString.toNat? with
    | some k =>
      if t.startsWith "k" then some (.const k, rest)
      else if t.startsWith "v" then some (.var k, rest)
      else if t.startsWith "f" then some (.field k, rest)
      else if t.startsWith "a" then some (.arg k, rest)
      else none
    | none => none
  | [] => none

def parseWExprs : Nat → Toks → List WExpr → Option (List WExpr × Toks)
  | 0, ts, acc => some (acc.reverse, ts)
  | k + 1, ts, acc => do
    let (e, rest) ← parseWExpr ts
    parseWExprs k rest (e :: acc)

/-- one description, without its tag: the description, or the operator of an `op=` -/
def parseDesc : Toks → Option (Sum OpDesc (BOp × Nat))
  | "P" :: rest => match parseWExpr rest with | some (e, []) => some (.inl (.pure e)) | _ => none
  | ["M", op, w] => do let op ← parseBOp op; let w ← w.toNat?; pure (.inr (op, w))
  | ["F", i, op, w] => do
    let i ← i.toNat?
    let w ← w.toNat?
    if op == "set" then pure (.inl (.store i none w))
    else do let op ← parseBOp op; pure (.inl (.store i (some op) w))
  | ["R", size, n, e] => do
    let size ← size.toNat?; let n ← n.toNat?
    let be ← match e with | "b" => some true | "l" => some false | _ => none
    pure (.inl (.rd ⟨size, n, be⟩))
  | "K" :: rest => match parseWExpr rest with | some (e, []) => some (.inl (.skip e)) | _ => none
  | ["K1"] => some (.inl .skip1)
  | "W" :: rest => match parseWExpr rest with | some (e, []) => some (.inl (.wr e)) | _ => none
  | ["YR"] => some (.inl .yieldSR)
  | ["YW"] => some (.inl .yieldSW)
  | "C" :: name :: k :: rest => do
    let k ← k.toNat?
    let (aes, rest) ← parseWExprs k rest []
    if rest ≠ [] then none
    pure (.inl (.call name aes))
  | _ => none

/-- split a token list at every `sep` -/
def splitToks (sep : String) (ts : Toks) : List Toks :=
  let r := ts.foldr (fun t (acc : Toks × List Toks) => if t == sep then ([], acc.1 :: acc.2) else (t :: acc.1, acc.2)) ([], [])
  r.1 :: r.2

def parseProg (nvars : Nat) (statuses : List String) (bodyT descT : Toks) : Option SProg := do
  let (body, rest) ← parseBlock bodyT
  if rest ≠ [] then none
  let mut ops : List (Nat × OpDesc) := []
  let mut combs : List (Nat × BOp × Nat) := []
  for d in splitToks ";" descT do
    match d with
    | [] => pure ()
    | tag :: rest =>
      let tag ← tag.toNat?
      match ← parseDesc rest with
      | .inl o => ops := (tag, o) :: ops
      | .inr c => combs := (tag, c) :: combs
  pure ⟨nvars, body, ops, combs, statuses, resumables nvars body⟩

/-- `<name> <nvars> | body | descs` groups, the first being the coroutine to run, the others its
(transitive) callees -/
def parseFns (statuses : List String) : List Toks → List (String × SProg) → Option (List (String × SProg))
  | [], acc => some acc.reverse
  | [name, n] :: bodyT :: descT :: more, acc => do
    let n ← n.toNat?
    let p ← parseProg n statuses bodyT descT
    parseFns statuses more ((name, p) :: acc)
  | _, _ => none

end C05Parse

def parseSizes (s : String) : Option (List Nat) :=
  if s == "-" then some [] else (s.splitOn ",").mapM String.toNat?

def parsePOp (s : String) : Option POp :=
  match s.splitOn ":" with
  | ["rd", size, n, e, d] => do
    let size ← size.toNat?; let n ← n.toNat?; let d ← d.toNat?
    let be ← match e with | "b" => some true | "l" => some false | _ => none
    pure (POp.rd ⟨size, n, be⟩ d)
  | ["skip", r] => r.toNat?.map POp.skip
  | ["skip1"] => some POp.skip1
  | ["wr", f, a, b] => do
    let f ← match f with | "add" => some BinF.add | "xor" => some BinF.xor | "fst" => some BinF.fst | _ => none
    let a ← a.toNat?; let b ← b.toNat?
    pure (POp.wr f a b)
  | _ => none

def c05Step (l : List String) : String :=
  match l with
  | ["prog", ops, accreg, ss, ds, hex] =>
    match (ops.splitOn ";").mapM parsePOp, accreg.toNat?, parseSizes ss, parseSizes ds, fromHex hex with
    | some prog, some ar, some ss, some ds, some bs =>
      let (st, s) := runProgram prog ss ds bs
      let stS := match st with | PStatus.ok => "ok" | PStatus.shortRead => "$short_read"
      let acc := match st with | PStatus.ok => getReg s.regs ar | _ => 0
      s!"st={stS} out={toHex s.dst.out} ri={s.src.consumed} acc={acc} susp={s.src.susp + s.wsusp}"
    | _, _, _, _, _ => "bad-op"
  | "live" :: n :: toks =>
    match n.toNat?, C05Parse.parseBlock toks with
    | some n, some (b, []) => "r " ++ showNatList (resumables n b)
    | _, _ => "bad-op"
  | _ => "bad-op"

/-- the current coroutine and the coroutines it may call -/
abbrev C05State := Option (SProg × List (String × SProg))

def c05Stateful (st : C05State) (l : List String) : C05State × String :=
  match l with
  | "case" :: statuses :: "|" :: rest =>
    match C05Parse.parseFns (statuses.splitOn ",") (C05Parse.splitToks "|" rest) [] with
    | some ((_, p) :: tbl) => (some (p, tbl), "defined")
    | _ => (none, "bad-op")
  | ["split", ss, ds, hex] =>
    match st, parseSizes ss, parseSizes ds, fromHex hex with
    | some (p, tbl), some ss, some ds, some bs =>
      let o := p.runChunked tbl ss ds bs
      (st, s!"st={o.status} out={toHex o.out} ri={o.consumed} acc={o.acc} g1={o.g1} susp={o.susp}")
    | _, _, _, _ => (st, "bad-op")
  | l => (st, c05Step l)

def main : IO Unit := run (none : C05State) c05Stateful
