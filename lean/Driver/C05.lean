import WuffsVerif.Common.Line
import WuffsVerif.Model.Liveness
/-! Line driver for C05.  Ops:
  live <nvars> <abstract body tokens…>   -> r [i,j,…]   (sorted resumable variable indexes)
The body grammar is the one written by /repo/internal/cgen/verif_export_c05.go.
-/
open WuffsVerif WuffsVerif.Line WuffsVerif.Liveness

namespace C05Parse

abbrev Toks := List String

def parseNats : Toks → List Nat → Option (List Nat × Toks)
  | ")" :: rest, acc => some (acc.reverse, rest)
  | t :: rest, acc => match t.toNat? with
    | some i => parseNats rest (i :: acc)
    | none => none
  | [], _ => none

/-- `( E n|c|ci i* )` -/
def parseEx : Toks → Option (Ex × Toks)
  | "(" :: "E" :: fl :: rest =>
    match parseNats rest [] with
    | some (vs, rest) =>
      match fl with
      | "n" => some (⟨false, false, vs⟩, rest)
      | "c" => some (⟨true, false, vs⟩, rest)
      | "ci" => some (⟨true, true, vs⟩, rest)
      | _ => none
    | none => none
  | _ => none

def parseExOpt : Toks → Option (Option Ex × Toks)
  | "-" :: rest => some (none, rest)
  | ts => (parseEx ts).map (fun (e, r) => (some e, r))

def parseLhs : Toks → Option (Lhs × Toks)
  | "-" :: rest => some (Lhs.none, rest)
  | "(" :: "V" :: i :: ")" :: rest => i.toNat?.map (fun i => (Lhs.var i, rest))
  | ts => (parseEx ts).map (fun (e, r) => (Lhs.expr e, r))

mutual
partial def parseStmt : Toks → Option (Stmt × Toks)
  | "(" :: "A" :: op :: rest => do
    let op ← match op with
      | "e" => some AOp.eq | "q" => some AOp.eqQuestion | "o" => some AOp.other | _ => none
    let (lhs, rest) ← parseLhs rest
    let (rhs, rest) ← parseEx rest
    match rest with
    | ")" :: rest => some (.assign op lhs rhs, rest)
    | _ => none
  | "(" :: "X" :: rest => do
    let (e, rest) ← parseEx rest
    match rest with
    | ")" :: rest => some (.expr e, rest)
    | _ => none
  | "(" :: "M" :: rest => do
    let (io, rest) ← parseEx rest
    let (a1, rest) ← parseExOpt rest
    let (hp, rest) ← parseExOpt rest
    let (b, rest) ← parseBlock rest
    match rest with
    | ")" :: rest => some (.iomanip io a1 hp b, rest)
    | _ => none
  | "(" :: "I" :: rest => do
    let (c, rest) ← parseEx rest
    let (t, rest) ← parseBlock rest
    let (e, rest) ← parseBlock rest
    match rest with
    | ")" :: rest => some (.ite c t e, rest)
    | _ => none
  | "(" :: "J" :: kw :: d :: ")" :: rest => do
    let d ← d.toNat?
    match kw with
    | "b" => some (.jump true d, rest)
    | "c" => some (.jump false d, rest)
    | _ => none
  | "(" :: "R" :: kw :: rest => do
    let (e, rest) ← parseEx rest
    let y ← match kw with | "r" => some false | "y" => some true | _ => none
    match rest with
    | ")" :: rest => some (.ret y e, rest)
    | _ => none
  | "(" :: "D" :: i :: ")" :: rest => i.toNat?.map (fun i => (.var i, rest))
  | "(" :: "W" :: tf :: rest => do
    let wt ← match tf with | "t" => some true | "f" => some false | _ => none
    let (c, rest) ← parseEx rest
    let (b, rest) ← parseBlock rest
    match rest with
    | ")" :: rest => some (.while wt c b, rest)
    | _ => none
  | _ => none

partial def parseStmts (ts : Toks) (acc : List Stmt) : Option (List Stmt × Toks) :=
  match ts with
  | "]" :: rest => some (acc.reverse, rest)
  | ts => do
    let (s, rest) ← parseStmt ts
    parseStmts rest (s :: acc)

partial def parseBlock : Toks → Option (List Stmt × Toks)
  | "[" :: rest => parseStmts rest []
  | _ => none
end

end C05Parse

def c05Step (l : List String) : String :=
  match l with
  | "live" :: n :: toks =>
    match n.toNat?, C05Parse.parseBlock toks with
    | some n, some (b, []) => "r " ++ showNatList (resumables n b)
    | _, _ => "bad-op"
  | _ => "bad-op"

def main : IO Unit := runPure c05Step
