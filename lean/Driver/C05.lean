import WuffsVerif.Common.Line
import WuffsVerif.Model.Liveness
import WuffsVerif.Model.Scratch
/-! Line driver for C05.  Ops:
  live <nvars> <abstract body tokens…>   -> r [i,j,…]   (sorted resumable variable indexes)
The body grammar is the one written by /repo/internal/cgen/verif_export_c05.go.
  prog <ops> <accreg> <src sizes|-> <dst sizes|-> <hex>  -> st=… out=… ri=… acc=… susp=…
    ops: `;`-separated  rd:<size>:<n>:<b|l>:<dst>  skip:<reg>  skip1  wr:<add|xor|fst>:<a>:<b>
-/
open WuffsVerif WuffsVerif.Line WuffsVerif.Liveness WuffsVerif.Scratch

namespace C05Parse

abbrev Toks := List String

def parseNats : Toks → List Nat → Option (List Nat × Toks)
  | ")" :: rest, acc => some (acc.reverse, rest)
  | t :: rest, acc => match t.toNat? with
    | some i => parseNats rest (i :: acc)
    | none => none
  | [], _ => none

/-- `( E n|c|ci i* )` -/
def parseEx : Toks → Option (Ex × Toks)
  | "(" :: "E" :: fl :: rest =>
    match parseNats rest [] with
    | some (vs, rest) =>
      match fl with
      | "n" => some (⟨false, false, vs, 0⟩, rest)
      | "c" => some (⟨true, false, vs, 0⟩, rest)
      | "ci" => some (⟨true, true, vs, 0⟩, rest)
      | _ => none
    | none => none
  | _ => none

def parseExOpt : Toks → Option (Option Ex × Toks)
  | "-" :: rest => some (none, rest)
  | ts => (parseEx ts).map (fun (e, r) => (some e, r))

def parseLhs : Toks → Option (Lhs × Toks)
  | "-" :: rest => some (Lhs.none, rest)
  | "(" :: "V" :: i :: ")" :: rest => i.toNat?.map (fun i => (Lhs.var i, rest))
  | ts => (parseEx ts).map (fun (e, r) => (Lhs.expr e, r))

mutual
partial def parseStmt : Toks → Option (Stmt × Toks)
  | "(" :: "A" :: op :: rest => do
    let op ← match op with
      | "e" => some AOp.eq | "q" => some AOp.eqQuestion | "o" => some AOp.other | _ => none
    let (lhs, rest) ← parseLhs rest
    let (rhs, rest) ← parseEx rest
    match rest with
    | ")" :: rest => some (.assign op lhs rhs, rest)
    | _ => none
  | "(" :: "X" :: rest => do
    let (e, rest) ← parseEx rest
    match rest with
    | ")" :: rest => some (.expr e, rest)
    | _ => none
  | "(" :: "M" :: rest => do
    let (io, rest) ← parseEx rest
    let (a1, rest) ← parseExOpt rest
    let (hp, rest) ← parseExOpt rest
    let (b, rest) ← parseBlock rest
    match rest with
    | ")" :: rest => some (.iomanip io a1 hp b, rest)
    | _ => none
  | "(" :: "I" :: rest => do
    let (c, rest) ← parseEx rest
    let (t, rest) ← parseBlock rest
    let (e, rest) ← parseBlock rest
    match rest with
    | ")" :: rest => some (.ite c t e, rest)
    | _ => none
  | "(" :: "J" :: kw :: d :: ")" :: rest => do
    let d ← d.toNat?
    match kw with
    | "b" => some (.jump true d, rest)
    | "c" => some (.jump false d, rest)
    | _ => none
  | "(" :: "R" :: kw :: rest => do
    let (e, rest) ← parseEx rest
    let y ← match kw with | "r" => some false | "y" => some true | _ => none
    match rest with
    | ")" :: rest => some (.ret y e, rest)
    | _ => none
  | "(" :: "D" :: i :: ")" :: rest => i.toNat?.map (fun i => (.var i, rest))
  | "(" :: "W" :: tf :: rest => do
    let wt ← match tf with | "t" => some true | "f" => some false | _ => none
    let (c, rest) ← parseEx rest
    let (b, rest) ← parseBlock rest
    match rest with
    | ")" :: rest => some (.while wt c b, rest)
    | _ => none
  | _ => none

partial def parseStmts (ts : Toks) (acc : List Stmt) : Option (List Stmt × Toks) :=
  match ts with
  | "]" :: rest => some (acc.reverse, rest)
  | ts => do
    let (s, rest) ← parseStmt ts
    parseStmts rest (s :: acc)

partial def parseBlock : Toks → Option (List Stmt × Toks)
  | "[" :: rest => parseStmts rest []
  | _ => none
end

end C05Parse

def parseSizes (s : String) : Option (List Nat) :=
  if s == "-" then some [] else (s.splitOn ",").mapM String.toNat?

def parsePOp (s : String) : Option POp :=
  match s.splitOn ":" with
  | ["rd", size, n, e, d] => do
    let size ← size.toNat?; let n ← n.toNat?; let d ← d.toNat?
    let be ← match e with | "b" => some true | "l" => some false | _ => none
    pure (POp.rd ⟨size, n, be⟩ d)
  | ["skip", r] => r.toNat?.map POp.skip
  | ["skip1"] => some POp.skip1
  | ["wr", f, a, b] => do
    let f ← match f with | "add" => some BinF.add | "xor" => some BinF.xor | "fst" => some BinF.fst | _ => none
    let a ← a.toNat?; let b ← b.toNat?
    pure (POp.wr f a b)
  | _ => none

def c05Step (l : List String) : String :=
  match l with
  | ["prog", ops, accreg, ss, ds, hex] =>
    match (ops.splitOn ";").mapM parsePOp, accreg.toNat?, parseSizes ss, parseSizes ds, fromHex hex with
    | some prog, some ar, some ss, some ds, some bs =>
      let (st, s) := runProgram prog ss ds bs
      let stS := match st with | PStatus.ok => "ok" | PStatus.shortRead => "$short_read"
      let acc := match st with | PStatus.ok => getReg s.regs ar | _ => 0
      s!"st={stS} out={toHex s.dst.out} ri={s.src.consumed} acc={acc} susp={s.src.susp + s.wsusp}"
    | _, _, _, _, _ => "bad-op"
  | "live" :: n :: toks =>
    match n.toNat?, C05Parse.parseBlock toks with
    | some n, some (b, []) => "r " ++ showNatList (resumables n b)
    | _, _ => "bad-op"
  | _ => "bad-op"

def main : IO Unit := runPure c05Step
