import WuffsVerif.Common.Line
import WuffsVerif.Model.ObjProto
import WuffsVerif.Model.IOBuf
import WuffsVerif.Model.CallSeq
import WuffsVerif.Model.ProbeVM
/-! Line driver for C08 (call protocol, I/O buffer contract, call_sequence). Stateful.

  reset <fill> <sizeof> <vmajor> <vminor> <methods>      -> ok
      fill 0 = zeroed memory, else every byte of the object is <fill>
      methods: `;`-separated  <p|i|c>,<n|s|o>,<coroID>,<derived01>,<susp01>,<emptybody01>,<argspecs>
      argspecs: `/`-separated  p | n | r<lo|_>..<hi|_>   (or `-` for none)
  init <selfnull01> <sizeofArg> <version> <options>       -> <status> <magic> <active>
  call <idx> <selfnull01> <args> <hint>                   -> <ret> <magic> <active>
      args: `/`-separated  p0 (NULL) | p1 | n<int> | o   (or `-`)
      hint: the status the body produces if it runs (`ok`, `@…`, `$…`, `#…`), `v`/`z`/`-` for non-status;
            `inner:#base:_…` = the body ran (harness evidence: outer magic/active_coroutine before and after)
            and returned a protocol status of an embedded sub-object
  tmpl <p|i|c> <n|s|o> <coroID> <derived> <susp01> <bodyEndsWithReturn01> <emptybody01> <args>   -> feature vector
      derived: `,`-separated r.<name> | w.<name> (or `-`); args: `/`-separated <name>:<argspec> (or `-`)
  tmplinit                                                -> initializer event sequence
  cseq <gif|png|still|nie> <cs> <dic|dfc|df|tmm|rf> <resumed01> <cls> <cs'>   -> rejected | allowed <cs'> | unexpected <cls> <cs'>
  cssrc <gif|png|nie|still|bmp> <codec> <func|*>          -> the call_sequence statements of that function (or the function list)
  vm <idx> <selfnull01> <src> <dst> <proghex>             -> <status> <magic> <active> src=… dst=… pc=… p=… scratch=…
      the probe's bytecode interpreter `thing.vm?` (Model/ProbeVM.lean); src/dst: <mode>,<memhex>,<ri>,<wi>,<closed01>
      with mode 0 = NULL pointer, 1 = buffer over memhex, 2 = buffer without data.ptr
  io <r|w> <memhex> <len> <ri> <wi> <closed01> <hasptr01> <instrs>  -> <ri> <wi> <len> <closed01> <memhex>
      instrs: `,`-separated rd<n> | sk<n> | un | wr<hex> | wp<hex> | ch<n>:<d> | lb<n> | le   (or `-`)
-/
open WuffsVerif WuffsVerif.Line WuffsVerif.ObjProto

structure DState where
  d : StructDesc := { sizeofSelf := 0, verMajor := 0, verMinor := 0, methods := [] }
  o : Obj := Obj.zeroed
  /-- the probe object's `f_pc`, `p_vm`, `s_vm.scratch` (only used by the `vm` op) -/
  vm : ProbeVM.VM := { pc := 0, p := 0, scratch := 0 }

def parseBool (s : String) : Option Bool :=
  if s == "0" then some false else if s == "1" then some true else none

def parseOptInt (s : String) : Option (Option Int) :=
  if s == "_" then some none else s.toInt?.map some

def parseArgSpec (s : String) : Option ArgSpec :=
  if s == "p" then some .ptr
  else if s == "n" then some .plain
  else if s.startsWith "r" then
    match ((s.drop 1).toString.splitOn "..") with
    | [a, b] => do
      let lo ← parseOptInt a
      let hi ← parseOptInt b
      pure (.refined lo hi)
    | _ => none
  else none

def parseArgSpecs (s : String) : Option (List ArgSpec) :=
  if s == "-" then some [] else (s.splitOn "/").mapM parseArgSpec

def parseEffect (s : String) : Option Effect :=
  if s == "p" then some .pure else if s == "i" then some .impure
  else if s == "c" then some .coroutine else none

/-- `n` no out, `s` status, `o` other type. -/
def parseOut (s : String) : Option (Bool × Bool) :=
  if s == "n" then some (false, false) else if s == "s" then some (true, true)
  else if s == "o" then some (true, false) else none

def parseMethod (s : String) : Option Method :=
  match s.splitOn "," with
  | [e, o, cid, dv, sp, eb, as] => do
    let eff ← parseEffect e
    let (ho, os) ← parseOut o
    let c ← cid.toNat?
    let d ← parseBool dv
    let p ← parseBool sp
    let b ← parseBool eb
    let a ← parseArgSpecs as
    pure { effect := eff, hasOut := ho, outIsStatus := os, coroID := c, args := a, derived := d,
           suspPoints := p, emptyBody := b }
  | _ => none

def parseArgVal (s : String) : Option ArgVal :=
  if s == "p0" then some (.ptr true) else if s == "p1" then some (.ptr false)
  else if s == "o" then some .other
  else if s.startsWith "n" then ((s.drop 1).toString.toInt?).map .num
  else none

def parseArgVals (s : String) : Option (List ArgVal) :=
  if s == "-" then some [] else (s.splitOn "/").mapM parseArgVal

def errText : Err → String
  | .badReceiver => "#base:_bad_receiver"
  | .badSizeofReceiver => "#base:_bad_sizeof_receiver"
  | .badWuffsVersion => "#base:_bad_wuffs_version"
  | .initializeFalselyClaimedAlreadyZeroed => "#base:_initialize_falsely_claimed_already_zeroed"
  | .initializeNotCalled => "#base:_initialize_not_called"
  | .disabledByPreviousError => "#base:_disabled_by_previous_error"
  | .interleavedCoroutineCalls => "#base:_interleaved_coroutine_calls"
  | .badArgument => "#base:_bad_argument"
  | .cannotReturnASuspension => "#base:_cannot_return_a_suspension"
  | .user _ => "#user"

/-- Statuses only the protocol code produces: a body cannot return them (unless it passes on the status of
an embedded sub-object's protocol layer: hint `inner:…`, see `innerProtocol`). -/
def protocolOnly : List String :=
  ["#base:_bad_receiver", "#base:_bad_sizeof_receiver", "#base:_bad_wuffs_version",
   "#base:_initialize_falsely_claimed_already_zeroed", "#base:_initialize_not_called",
   "#base:_disabled_by_previous_error", "#base:_interleaved_coroutine_calls"]

def magicClass (m : Nat) : String :=
  if m == 0 then "zero" else if m == MAGIC then "magic" else if m == DISABLED then "disabled" else "other"

/-- The hint as a body result: errors leave through `exit`, suspensions through `suspend`,
complete statuses through `ok`. -/
def hintBody (h : String) : BodyRes :=
  if h.startsWith "#" then { path := .exit, st := .err (.user 0), point := 0 }
  else if h.startsWith "$" then { path := .suspend, st := .susp 0, point := 1 }
  else if h.startsWith "@" then { path := .ok, st := .note 0, point := 0 }
  else { path := .ok, st := .ok, point := 0 }

/-- Protocol statuses that a body can pass on: the protocol layer of an EMBEDDED sub-object (webp's vp8,
png's zlib, …) produced them and the outer body returned them like any other error. -/
def innerProtocol : List String :=
  ["#base:_initialize_not_called", "#base:_disabled_by_previous_error",
   "#base:_interleaved_coroutine_calls"]

/-- `inner:<status>`: the harness saw, from the OUTER object's magic word and active_coroutine before and
after the call, that the outer protocol layer let the call through (the body ran) on an object that embeds
sub-objects, and the body returned this protocol status of a sub-object. -/
def splitHint (h : String) : Bool × String :=
  if h.startsWith "inner:" then (true, (h.drop 6).toString) else (false, h)

def showRet (r : Ret) (hint : String) : String :=
  let (inner, h) := splitHint hint
  if inner then
    match r with
    | .st (.err (.user _)) => if innerProtocol.contains h then h else "bad-inner-hint:" ++ h
    -- the harness says the body ran, the model says the protocol layer rejected: never equal to the impl line
    | .st (.err e) => "protocol-rejected:" ++ errText e
    | _ => "bad-inner-hint:" ++ h
  else
  match r with
  | .zero => if hint == "-" then "-" else "z"
  | .value => if hint == "-" then "-" else "v"
  | .st .ok => if hint == "ok" then "ok" else "body-ran:" ++ hint
  | .st (.err (.user _)) | .st (.note _) | .st (.susp _) =>
    if protocolOnly.contains hint || hint == "ok" || hint == "v" || hint == "z" || hint == "-"
    then "body-ran:" ++ hint else hint
  | .st (.err e) => errText e

def showObj (o : Obj) : String := magicClass o.magic ++ " " ++ toString o.active

/-! IOBuf ops -/
open WuffsVerif.IOBuf in
def parseInstr (s : String) : Option Instr :=
  let rest := (s.drop 2).toString
  if s == "un" then some .undo
  else if s == "le" then some .limitEnd
  else if s.startsWith "rd" then rest.toNat?.map .rd
  else if s.startsWith "sk" then rest.toNat?.map .skip
  else if s.startsWith "lb" then rest.toNat?.map .limitBegin
  else if s.startsWith "wr" then (fromHex rest).map .wr
  else if s.startsWith "wp" then (fromHex rest).map .wrPartial
  else if s.startsWith "ch" then
    match rest.splitOn ":" with
    | [a, b] => do
      let n ← a.toNat?
      let d ← b.toNat?
      pure (.copyHist n d)
    | _ => none
  else none

open WuffsVerif.IOBuf in
def ioOp (role mem len ri wi closed hasptr instrs : String) : Option String := do
  let w ← if role == "w" then some true else if role == "r" then some false else none
  let m ← fromHex mem
  let len ← len.toNat?
  let ri ← ri.toNat?
  let wi ← wi.toNat?
  let c ← parseBool closed
  let hp ← parseBool hasptr
  let is ← if instrs == "-" then some [] else (instrs.splitOn ",").mapM parseInstr
  let b : Buf := { mem := m, len := len, ri := ri, wi := wi, pos := 0, closed := c, hasPtr := hp }
  let r := callIO w b is
  pure s!"{r.ri} {r.wi} {r.len} {if r.closed then 1 else 0} {toHex r.mem}"

/-! CallSeq op -/
open WuffsVerif.CallSeq in
def cseqOp (codec cs meth resumed cls cs' : String) : Option String := do
  let c ← if codec == "gif" then some Codec.gif else if codec == "png" then some Codec.png
    else if codec == "still" then some Codec.still else if codec == "nie" then some Codec.nie else none
  let cs ← cs.toNat?
  let cs' ← cs'.toNat?
  let m ← match meth with
    | "dic" => some Meth.dic | "dfc" => some Meth.dfc | "df" => some Meth.df
    | "tmm" => some Meth.tmm | "rf" => some Meth.rf | _ => none
  let r ← parseBool resumed
  let k ← match cls with
    | "bcs" => some Cls.bcs | "ok" => some Cls.ok | "eod" => some Cls.eod | "meta" => some Cls.mdata
    | "susp" => some Cls.susp | "err" => some Cls.err | _ => none
  if allowed c cs m r (k, cs') then
    pure (if k == Cls.bcs then "rejected" else s!"allowed {cs'}")
  else pure s!"unexpected {cls} {cs'}"

def parseDerived (s : String) : Option DerivedVar :=
  let nm := (s.drop 2).toString
  if s.startsWith "r." then some { name := nm, isWriter := false }
  else if s.startsWith "w." then some { name := nm, isWriter := true }
  else none

def parseNamedArg (s : String) : Option (String × ArgSpec) :=
  match s.splitOn ":" with
  | [n, sp] => (parseArgSpec sp).map fun a => (n, a)
  | _ => none

/-! probe `vm` op -/
open WuffsVerif.IOBuf in
def parseBufDesc (s : String) : Option (Nat × Buf) :=
  match s.splitOn "," with
  | [mode, mem, ri, wi, closed] => do
    let md ← mode.toNat?
    let m ← fromHex mem
    let ri ← ri.toNat?
    let wi ← wi.toNat?
    let c ← parseBool closed
    if md == 1 then
      pure (1, { mem := m, len := m.length, ri := ri, wi := wi, pos := 0, closed := c, hasPtr := true })
    else if md == 2 then
      pure (2, { mem := [], len := 0, ri := 0, wi := 0, pos := 0, closed := c, hasPtr := false })
    else if md == 0 then
      pure (0, { mem := [], len := 0, ri := 0, wi := 0, pos := 0, closed := false, hasPtr := false })
    else none
  | _ => none

open WuffsVerif.IOBuf in
def showBuf (name : String) (mode : Nat) (b : Buf) (withMem : Bool) : String :=
  s!"{name}={mode},{b.ri},{b.wi},{b.len},{if b.closed then 1 else 0}" ++
    (if withMem then "," ++ toHex b.mem else "")

def vmStatusText : Status → String
  | .ok => "ok"
  | .note _ => "@probe:_probe_note"
  | .susp 1 => "$probe:_probe_suspension"
  | .susp 2 => "$base:_short_read"
  | .susp _ => "$base:_short_write"
  | .err (.user _) => "#probe:_probe_error"
  | .err e => errText e

/-- Do the prologue checks of `callMethod` let the body run? -/
def bodyRuns (m : Method) (o : Obj) (sn : Bool) (args : List ArgVal) : Bool :=
  !m.skipsPrologue && !sn && !magicBad m o && !argsBad m.args args &&
    !(m.effect == .coroutine && o.active != 0 && o.active != m.coroID)

def vmOp (st : DState) (idx sn src dst prog : String) : Option (DState × String) := do
  let idx ← idx.toNat?
  let sn ← parseBool sn
  let (smode, sb) ← parseBufDesc src
  let (dmode, db) ← parseBufDesc dst
  let pr ← fromHex prog
  let m ← st.d.methods[idx]?
  let args : List ArgVal := [.ptr (dmode == 0), .ptr (smode == 0), .other]
  let res := ProbeVM.callVM pr st.vm sb db
  let runs := bodyRuns m st.o sn args
  let (o', r) := step st.d st.o (.meth idx sn args res.body)
  let vm' := if runs then res.vm else st.vm
  let sb' := if runs then res.src else sb
  let db' := if runs then res.dst else db
  let rs := match r with
    | .st s => vmStatusText s
    | .zero => "z"
    | .value => "v"
  let scr := if vm'.p == 3 || vm'.p == 4 then vm'.scratch else 0
  pure ({ st with o := o', vm := vm' },
    s!"{rs} {showObj o'} {showBuf "src" smode sb' false} {showBuf "dst" dmode db' true} pc={vm'.pc} p={vm'.p} scratch={scr}")

def c08Step (st : DState) (l : List String) : DState × String :=
  match l with
  | ["reset", fill, sz, vmaj, vmin, ms] =>
    match fill.toNat?, sz.toNat?, vmaj.toNat?, vmin.toNat?,
        (if ms == "-" then some [] else (ms.splitOn ";").mapM parseMethod) with
    | some f, some sz, some vj, some vn, some ml =>
      let word := f * 0x01010101
      let o : Obj := if f == 0 then Obj.zeroed else { magic := word, active := word, susp := fun _ => word }
      let w64 := f * 0x0101010101010101
      ({ d := { sizeofSelf := sz, verMajor := vj, verMinor := vn, methods := ml }, o := o,
         vm := { pc := w64, p := word, scratch := w64 } }, "ok")
    | _, _, _, _, _ => (st, "bad-op")
  | ["init", sn, sz, ver, opts] =>
    match parseBool sn, sz.toNat?, ver.toNat?, opts.toNat? with
    | some sn, some sz, some ver, some opts =>
      let (o', s) := initObj st.d st.o sn sz ver opts
      -- what the memsets of a successful initialize do to the probe's other fields
      let vm' : ProbeVM.VM :=
        if s != .ok || opts &&& ALREADY_ZEROED != 0 then st.vm
        else if opts &&& LEAVE_INTERNAL_BUFFERS_UNINITIALIZED == 0 then { pc := 0, p := 0, scratch := 0 }
        else { pc := 0, p := 0, scratch := st.vm.scratch }
      ({ st with o := o', vm := vm' }, showRet (.st s) "ok" ++ " " ++ showObj o')
    | _, _, _, _ => (st, "bad-op")
  | ["call", idx, sn, args, hint] =>
    match idx.toNat?, parseBool sn, parseArgVals args with
    | some idx, some sn, some av =>
      if idx < st.d.methods.length then
        let (o', r) := step st.d st.o (.meth idx sn av (hintBody (splitHint hint).2))
        ({ st with o := o' }, showRet r hint ++ " " ++ showObj o')
      else (st, "bad-op")
    | _, _, _ => (st, "bad-op")
  | ["tmpl", e, o, cid, dvs, sp, ber, eb, args] =>
    let r : Option String := do
      let eff ← parseEffect e
      let (ho, os) ← parseOut o
      let c ← cid.toNat?
      let p ← parseBool sp
      let b ← parseBool ber
      let ebb ← parseBool eb
      let dv ← if dvs == "-" then some [] else (dvs.splitOn ",").mapM parseDerived
      let na ← if args == "-" then some [] else (args.splitOn "/").mapM parseNamedArg
      let m : Method := { effect := eff, hasOut := ho, outIsStatus := os, coroID := c,
                          args := na.map (·.2), derived := !dv.isEmpty, suspPoints := p,
                          emptyBody := ebb }
      pure (shapeOfMethod m (na.map (·.1)) dv b)
    (st, r.getD "bad-op")
  | ["tmplinit"] => (st, initShape)
  | ["cseq", codec, cs, meth, resumed, cls, cs'] =>
    (st, (cseqOp codec cs meth resumed cls cs').getD "bad-op")
  | ["cssrc", cls, _codec, fn] =>
    (st, if fn == "*" then CallSeq.srcFuncs cls else CallSeq.srcShape cls fn)
  | ["vm", idx, sn, src, dst, prog] => (vmOp st idx sn src dst prog).getD (st, "bad-op")
  | ["io", role, mem, len, ri, wi, closed, hasptr, instrs] =>
    (st, (ioOp role mem len ri wi closed hasptr instrs).getD "bad-op")
  | _ => (st, "bad-op")

def main : IO Unit := run ({} : DState) c08Step
