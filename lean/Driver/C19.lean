import WuffsVerif.Common.Line
import WuffsVerif.Model.Hash
import WuffsVerif.Model.Png.Uncomp
import WuffsVerif.Model.Png.Spec
/-! Line driver for C19 (lib/uncompng).  Stateful: one `Encoder` lives across ops until `reset`.

  reset                                          -> ok
  encode W H STRIDE DEPTH CT PIX [len:L] [failat:K] -> STATUS N ITEM*   (N Write calls, one ITEM each)
        PIX gives the cap(pix) bytes of the backing array; len:L is len(pix) when it is smaller
        STATUS = ok | invalid-argument | unsupported-size | write-error | panic   (panic prints no items)
        PIX    = hex | - | seeded:SEED:LEN | fill:XX:LEN | adlerstress:LEN:C
  specdecode (last | hex)                        -> none | some W H DEPTH CT ITEM(pixels)
        `last` = concatenation of the Write calls of the previous encode
  stdview hex                                    -> none | some W H GOTYPE ITEM(rgba)
        the decoded image the way a standard decoder reports it: GOTYPE = the image type Go's image/png
        returns (Gray, Gray16, RGBA, RGBA64, NRGBA, NRGBA64); rgba = for every pixel, row-major, the four
        values R G B A of `Spec.Image.rgba` (non-premultiplied, at the image's depth) as 2 bytes big-endian each
  ITEM = lower-case hex when at most 1024 bytes ("-" when empty), else
         #LEN:ADLER32:CRC32:FNV1A64  (decimal length, hex digests)
-/
open WuffsVerif WuffsVerif.Line WuffsVerif.Hash WuffsVerif.Png

namespace C19Driver

def hexN (n width : Nat) : String :=
  String.ofList ((List.range width).reverse.map (fun i => hexDigit ((n >>> (4 * i)) % 16)))

def fnv1a (a : Array UInt8) : UInt64 :=
  a.foldl (fun h b => (h ^^^ b.toUInt64) * 0x100000001b3) 0xcbf29ce484222325

def hexArr (a : Array UInt8) : String :=
  if a.isEmpty then "-" else
  String.ofList (a.foldr (fun b acc => hexDigit (b.toNat / 16) :: hexDigit (b.toNat % 16) :: acc) [])

def item (a : Array UInt8) : String :=
  if a.size ≤ 1024 then hexArr a else
  let ad := adlerOuter a 0 a.size 1 0
  let adler := ad.2.toNat * 65536 + ad.1.toNat
  let crc := crc32Range Gen.C19.crc32IEEETable a 0 a.size
  s!"#{a.size}:{hexN adler 8}:{hexN crc.toNat 8}:{hexN (fnv1a a).toNat 16}"

def mix (s : UInt64) : UInt64 :=
  let z := (s ^^^ (s >>> 30)) * 0xBF58476D1CE4E5B9
  let z := (z ^^^ (z >>> 27)) * 0x94D049BB133111EB
  z ^^^ (z >>> 31)

/-- `seeded:SEED:LEN`: splitmix64 from state SEED, each output word gives 8 bytes little-endian. -/
def seeded (seed : UInt64) (len : Nat) : Array UInt8 := Id.run do
  let mut a : Array UInt8 := Array.mkEmpty len
  let mut s := seed
  let mut z : UInt64 := 0
  for i in [0:len] do
    if i % 8 == 0 then
      s := s + 0x9E3779B97F4A7C15
      z := mix s
    a := a.push (z >>> (8 * (i % 8)).toUInt64).toUInt8
  return a

/-- `adlerstress:LEN:C`: 256 × 0xFF, 239, zeros up to index C-2, then 0xFF (see the harness). -/
def adlerStress (len c : Nat) : Array UInt8 :=
  Array.ofFn (n := len) (fun i =>
    if i.val < 256 then 0xFF else if i.val = 256 then 239 else if i.val < c - 1 then 0 else 0xFF)

def parsePix (s : String) : Option (Array UInt8) :=
  match s.splitOn ":" with
  | ["adlerstress", ln, c] => do
    let ln ← ln.toNat?
    let c ← c.toNat?
    pure (adlerStress ln c)
  | ["seeded", sd, ln] => do
    let sd ← sd.toNat?
    let ln ← ln.toNat?
    pure (seeded (UInt64.ofNat sd) ln)
  | ["fill", x, ln] => do
    let v ← fromHex x
    let ln ← ln.toNat?
    match v with
    | [b] => pure (Array.replicate ln b)
    | _ => none
  | [h] => (fromHex h).map List.toArray
  | _ => none

structure St where
  enc : Uncomp.Enc
  last : Array (Array UInt8)

def St.new : St := ⟨Uncomp.Enc.new, #[]⟩

def statusWord : Uncomp.Status → String
  | .ok => "ok"
  | .invalidArgument => "invalid-argument"
  | .unsupportedSize => "unsupported-size"
  | .writeError => "write-error"
  | .panic => "panic"

/-- the optional trailing tokens `len:L` and `failat:K` (in this order) -/
def parseFail (l : List String) : Option (Option Nat × Option Nat) :=
  let tok (f : String) : Option (String × Nat) :=
    match f.splitOn ":" with
    | [k, v] => v.toNat?.map (fun n => (k, n))
    | _ => none
  match l.map tok with
  | [] => some (none, none)
  | [some ("len", n)] => some (some n, none)
  | [some ("failat", k)] => some (none, some k)
  | [some ("len", n), some ("failat", k)] => some (some n, some k)
  | _ => none

def doEncode (st : St) (w h stride depth ct pix : String) (rest : List String) : St × String :=
  match w.toInt?, h.toInt?, stride.toInt?, depth.toNat?, ct.toNat?, parsePix pix, parseFail rest with
  | some w, some h, some stride, some depth, some ct, some pix, some (plen, failAt) =>
    if depth > 255 ∨ ct > 255 then (st, "bad-op") else
    let enc := st.enc
    let st := { st with enc := Uncomp.Enc.new }   -- drop the reference so that the buffer is updated in place
    let r := Uncomp.encode enc (Uncomp.Writer.new failAt) pix (plen.getD pix.size) w h stride (UInt8.ofNat depth) (UInt8.ofNat ct)
    match r.status with
    | .panic => ({ st with enc := { r.e with oob := false }, last := #[] }, "panic")
    | s =>
      let ws := r.w.writes
      let out := ws.foldl (fun acc a => acc ++ " " ++ item a) s!"{statusWord s} {ws.size}"
      ({ enc := r.e, last := ws }, out)
  | _, _, _, _, _, _, _ => (st, "bad-op")

def doSpecDecode (bs : List UInt8) : String :=
  match Spec.decode bs with
  | none => "none"
  | some im => s!"some {im.width} {im.height} {im.depth} {im.colorType} {item im.pixels.toArray}"

def viewBytes (im : Spec.Image) : Array UInt8 := Id.run do
  let mut a : Array UInt8 := Array.mkEmpty (im.width * im.height * 8)
  for y in [0:im.height] do
    for x in [0:im.width] do
      match im.rgba x y with
      | some (r, g, b, al) =>
        for v in [r, g, b, al] do
          a := (a.push (UInt8.ofNat (v / 256))).push (UInt8.ofNat v)
      | none => a := a.push 0xEE
  return a

def doStdView (bs : List UInt8) : String :=
  match Spec.decode bs with
  | none => "none"
  | some im => s!"some {im.width} {im.height} {im.goType} {item (viewBytes im)}"

def step (st : St) (l : List String) : St × String :=
  match l with
  | ["reset"] => (St.new, "ok")
  | "encode" :: w :: h :: stride :: depth :: ct :: pix :: rest => doEncode st w h stride depth ct pix rest
  | ["specdecode", "last"] =>
    (st, doSpecDecode (st.last.foldr (fun a acc => a.toList ++ acc) []))
  | ["stdview", h] =>
    match fromHex h with
    | some bs => (st, doStdView bs)
    | none => (st, "bad-op")
  | ["specdecode", h] =>
    match fromHex h with
    | some bs => (st, doSpecDecode bs)
    | none => (st, "bad-op")
  | _ => (st, "bad-op")

end C19Driver

def main : IO Unit := run C19Driver.St.new C19Driver.step
