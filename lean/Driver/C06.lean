import WuffsVerif.Common.Line
import WuffsVerif.Model.Interval
import WuffsVerif.Model.IntervalHeap
/-! Line driver for C06 (lib/interval).  Ops (bounds: decimal, or `inf` = nil):
  add|sub|mul|quo|lsh|rsh|and|or|unite|intersect xlo xhi ylo yhi  -> ok lo hi pl ph | fail | panic
      (pl ph: provenance of the two result pointers in the heap model Model/IntervalHeap.lean:
       `-` nil, `f` a new object, `x0 x1 y0 y1` an operand's pointer, `one minusOne mask<n>` a
       package-level object; the values are those of the value model, and the line is
       `heap-model-diverges …` should the heap model compute anything else)
  andmax|ormax xlo xhi ylo yhi -> v n | panic
  abnn|obnn|aonn|oonn xlo xhi ylo yhi -> ok lo hi | panic   (andBothNonNeg, orBothNonNeg,
      andOneNegOneNonNeg(neg, non), orOneNegOneNonNeg(neg, non); panic = pre-condition failure)
  ipu zlo zhi wlo whi -> ok lo hi                            (z.inPlaceUnite(w), new value of z)
  bfr n -> v n | panic
  split2|split3 lo hi -> ...
per-helper lines (every unexported helper of interval.go):
  bquo|bmul|blsh|brsh i j -> v n | panic        (bigIntQuo/Mul/Lsh/Rsh; Quo by zero panics)
  bset|bnot b -> v b                              (bigIntNewSet/NewNot; b may be inf = nil)
  bmask n0 n1 -> v m sh|fr                        (bitMask; sh = pointer into smallBitMasks)
  jz lo hi -> b bool                              (justZero)
  preds lo hi i -> b Empty ContainsNegative ContainsNonNegative ContainsPositive ContainsZero ContainsInt(i)
  rel xlo xhi ylo yhi -> b ContainsIntRange Eq
  str lo hi -> s <String()>
  mkempty -> ok 1 -1 ; newbip -> p +inf -inf
  lowermin|raisemax plo phi y -> p lo hi          (biggerInt tokens: -inf, +inf, decimal)
  toir plo phi -> ok lo hi ; fromir lo hi -> p lo hi
  mullsh 0|1 xlo xhi ylo yhi -> ok lo hi          (mulLsh(x, y, shift) called directly)
-/
open WuffsVerif WuffsVerif.Line WuffsVerif.Interval

def parseBound (s : String) : Option (Option Int) :=
  if s == "inf" then some none else (s.toInt?).map some

def showBound : Option Int → String
  | none => "inf"
  | some i => toString i

def showIR (r : IR) : String := showBound r.lo ++ " " ++ showBound r.hi

def parse2 (a b c d : String) : Option (IR × IR) := do
  let xl ← parseBound a; let xh ← parseBound b
  let yl ← parseBound c; let yh ← parseBound d
  pure (⟨xl, xh⟩, ⟨yl, yh⟩)

/-! heap model: run the same call on pointers, report where the result pointers come from -/
section heap
open WuffsVerif.IntervalHeap

def provOf (x y : HIR) (n : Nat) (z : HIR) : String :=
  (classify x y n z.lo).toString ++ " " ++ (classify x y n z.hi).toString

/-- append the heap model's provenance to a value-model answer `p` (`ok lo hi`), provided the
heap model computes the same values -/
def withProv (p : String) (heapOut : String) : String :=
  if heapOut.startsWith p then heapOut
  else "heap-model-diverges value-model=[" ++ p ++ "] heap-model=[" ++ heapOut ++ "]"

def heapRange (X Y : IR) (f : HIR → HIR → HM HIR) : String :=
  let (x, y, h) := setup X Y
  match f x y h with
  | none => "panic"
  | some (z, h') => "ok " ++ showIR (viewAt h' z) ++ " " ++ provOf x y h.size z

def heapApi (op : Op) (X Y : IR) : String :=
  let (x, y, h) := setup X Y
  match runOp op x y h with
  | none => "panic"
  | some (none, _) => "fail"
  | some (some z, h') => "ok " ++ showIR (viewAt h' z) ++ " " ++ provOf x y h.size z

def heapSplit2 (X : IR) : String :=
  let (x, y, h) := setup X ⟨none, none⟩
  match split2Ways x h with
  | none => "panic"
  | some ((n, p, hn, hp), h') =>
    s!"s {showIR (viewAt h' n)} {showIR (viewAt h' p)} {hn} {hp} {provOf x y h.size n} {provOf x y h.size p}"

def heapSplit3 (X : IR) : String :=
  let (x, y, h) := setup X ⟨none, none⟩
  match split3Ways x h with
  | none => "panic"
  | some ((n, p, hn, hz, hp), h') =>
    s!"s {showIR (viewAt h' n)} {showIR (viewAt h' p)} {hn} {hz} {hp} {provOf x y h.size n} {provOf x y h.size p}"

end heap

def parseBI (s : String) : Option BI :=
  if s == "-inf" then some .negInf else if s == "+inf" then some .posInf
  else (s.toInt?).map BI.fin

def showBI : BI → String
  | .negInf => "-inf"
  | .posInf => "+inf"
  | .fin i => toString i

def showBIP (p : BIP) : String := "p " ++ showBI p.lo ++ " " ++ showBI p.hi

def c06Helper (l : List String) : Option String :=
  match l with
  | ["mkempty"] => some ("ok " ++ showIR mkEmpty)
  | ["newbip"] => some (showBIP BIP.new)
  | [op, a] =>
    if op == "bset" || op == "bnot" then
      match parseBound a with
      | some b => some ("v " ++ showBound (if op == "bset" then bigNewSet b else bigNewNot b))
      | none => some "bad-op"
    else none
  | [op, a, b] =>
    match op with
    | "bquo" | "bmul" | "blsh" | "brsh" =>
      (match a.toInt?, b.toInt? with
      | some i, some j =>
        let r : Option Int := match op with
          | "bquo" => bigQuoP i j
          | "bmul" => some (bigMul i j)
          | "blsh" => some (bigLsh i j)
          | _ => some (bigRsh i j)
        some (match r with | some v => "v " ++ toString v | none => "panic")
      | _, _ => some "bad-op")
    | "bmask" =>
      (match a.toNat?, b.toNat? with
      | some n0, some n1 =>
        some ("v " ++ toString (bitMask n0 n1) ++ (if bitMaskShared n0 n1 then " sh" else " fr"))
      | _, _ => some "bad-op")
    | "jz" =>
      (match parseBound a, parseBound b with
      | some lo, some hi => some ("b " ++ toString (IR.justZero ⟨lo, hi⟩))
      | _, _ => some "bad-op")
    | "str" =>
      (match parseBound a, parseBound b with
      | some lo, some hi => some ("s " ++ IR.str ⟨lo, hi⟩)
      | _, _ => some "bad-op")
    | "toir" =>
      (match parseBI a, parseBI b with
      | some lo, some hi => some ("ok " ++ showIR (BIP.toIR ⟨lo, hi⟩))
      | _, _ => some "bad-op")
    | "fromir" =>
      (match parseBound a, parseBound b with
      | some lo, some hi => some (showBIP (BIP.fromIR ⟨lo, hi⟩))
      | _, _ => some "bad-op")
    | _ => none
  | [op, a, b, c] =>
    match op with
    | "preds" =>
      (match parseBound a, parseBound b, c.toInt? with
      | some lo, some hi, some i =>
        let x : IR := ⟨lo, hi⟩
        some s!"b {x.empty} {x.containsNegative} {x.containsNonNegative} {x.containsPositive} {x.containsZero} {x.containsInt i}"
      | _, _, _ => some "bad-op")
    | "lowermin" | "raisemax" =>
      (match parseBI a, parseBI b, parseBI c with
      | some lo, some hi, some y =>
        let p : BIP := ⟨lo, hi⟩
        some (showBIP (if op == "lowermin" then p.lowerMin y else p.raiseMax y))
      | _, _, _ => some "bad-op")
    | _ => none
  | ["rel", a, b, c, d] =>
    match parse2 a b c d with
    | some (x, y) => some s!"b {x.containsIntRange y} {x.eq y}"
    | none => some "bad-op"
  | ["mullsh", sh, a, b, c, d] =>
    match parse2 a b c d with
    | some (x, y) =>
      if sh == "0" then some (withProv ("ok " ++ showIR (mulLsh x y false)) (heapRange x y (IntervalHeap.mulLsh · · false)))
      else if sh == "1" then some (withProv ("ok " ++ showIR (mulLsh x y true)) (heapRange x y (IntervalHeap.mulLsh · · true)))
      else some "bad-op"
    | none => some "bad-op"
  | _ => none

def c06Step (l : List String) : String :=
  match c06Helper l with
  | some s => s
  | none =>
  match l with
  | [op, a, b, c, d] =>
    match parse2 a b c d with
    | none => "bad-op"
    | some (x, y) =>
      let okOpt (r : Option IR) (failWord : String) : String :=
        match r with | some z => "ok " ++ showIR z | none => failWord
      match op with
      | "add" => withProv ("ok " ++ showIR (add x y)) (heapApi .add x y)
      | "sub" => withProv ("ok " ++ showIR (sub x y)) (heapApi .sub x y)
      | "mul" => withProv ("ok " ++ showIR (mul x y)) (heapApi .mul x y)
      | "unite" => withProv ("ok " ++ showIR (unite x y)) (heapApi .unite x y)
      | "intersect" => withProv ("ok " ++ showIR (intersect x y)) (heapApi .intersect x y)
      | "quo" => withProv (okOpt (tryQuo x y) "fail") (heapApi .quo x y)
      | "lsh" => withProv (okOpt (tryLsh x y) "fail") (heapApi .lsh x y)
      | "rsh" => withProv (okOpt (tryRsh x y) "fail") (heapApi .rsh x y)
      | "abnn" => withProv (okOpt (andBothNonNeg x y) "panic") (heapRange x y IntervalHeap.andBothNonNeg)
      | "obnn" => withProv (okOpt (orBothNonNeg x y) "panic") (heapRange x y IntervalHeap.orBothNonNeg)
      | "aonn" => withProv (okOpt (andOneNegOneNonNeg x y) "panic") (heapRange x y IntervalHeap.andOneNegOneNonNeg)
      | "oonn" =>
        -- the Go orOneNegOneNonNeg has no pre-condition check of its own: same as the model
        withProv (okOpt (orOneNegOneNonNeg x y) "panic") (heapRange x y IntervalHeap.orOneNegOneNonNeg)
      | "ipu" => withProv ("ok " ++ showIR (inPlaceUnite x y)) (heapRange x y IntervalHeap.inPlaceUnite)
      | "and" => withProv (okOpt (Interval.and x y) "panic") (heapApi .and x y)
      | "or" => withProv (okOpt (Interval.or x y) "panic") (heapApi .or x y)
      | "andmax" | "ormax" =>
        match x.lo, x.hi, y.lo, y.hi with
        | some xl, some xh, some yl, some yh =>
          match (if op == "andmax" then andMaxP xl xh yl yh else orMaxP xl xh yl yh) with
          | some v => "v " ++ toString v
          | none => "panic"
        | _, _, _, _ => "bad-op"
      | _ => "bad-op"
  | ["bfr", n] =>
    match n.toInt? with
    | some i =>
      match bitFillRightP i with
      | some v => "v " ++ toString v
      | none => "panic"
    | none => "bad-op"
  | [op, a, b] =>
    match parseBound a, parseBound b with
    | some lo, some hi =>
      let x : IR := ⟨lo, hi⟩
      match op with
      | "split2" =>
        let (n, p, hn, hp) := x.split2
        withProv s!"s {showIR n} {showIR p} {hn} {hp}" (heapSplit2 x)
      | "split3" =>
        let (n, p, hn, hz, hp) := x.split3
        withProv s!"s {showIR n} {showIR p} {hn} {hz} {hp}" (heapSplit3 x)
      | _ => "bad-op"
    | _, _ => "bad-op"
  | _ => "bad-op"

def main : IO Unit := runPure c06Step
