import WuffsVerif.Common.Line
import WuffsVerif.Model.Interval
/-! Line driver for C06 (lib/interval).  Ops (bounds: decimal, or `inf` = nil):
  add|sub|mul|quo|lsh|rsh|and|or|unite|intersect xlo xhi ylo yhi  -> ok lo hi | fail | panic
  andmax|ormax xlo xhi ylo yhi -> v n | panic
  abnn|obnn|aonn|oonn xlo xhi ylo yhi -> ok lo hi | panic   (andBothNonNeg, orBothNonNeg,
      andOneNegOneNonNeg(neg, non), orOneNegOneNonNeg(neg, non); panic = pre-condition failure)
  ipu zlo zhi wlo whi -> ok lo hi                            (z.inPlaceUnite(w), new value of z)
  bfr n -> v n | panic
  split2|split3 lo hi -> ...
-/
open WuffsVerif WuffsVerif.Line WuffsVerif.Interval

def parseBound (s : String) : Option (Option Int) :=
  if s == "inf" then some none else (s.toInt?).map some

def showBound : Option Int → String
  | none => "inf"
  | some i => toString i

def showIR (r : IR) : String := showBound r.lo ++ " " ++ showBound r.hi

def parse2 (a b c d : String) : Option (IR × IR) := do
  let xl ← parseBound a; let xh ← parseBound b
  let yl ← parseBound c; let yh ← parseBound d
  pure (⟨xl, xh⟩, ⟨yl, yh⟩)

def c06Step (l : List String) : String :=
  match l with
  | [op, a, b, c, d] =>
    match parse2 a b c d with
    | none => "bad-op"
    | some (x, y) =>
      let okOpt (r : Option IR) (failWord : String) : String :=
        match r with | some z => "ok " ++ showIR z | none => failWord
      match op with
      | "add" => "ok " ++ showIR (add x y)
      | "sub" => "ok " ++ showIR (sub x y)
      | "mul" => "ok " ++ showIR (mul x y)
      | "unite" => "ok " ++ showIR (unite x y)
      | "intersect" => "ok " ++ showIR (intersect x y)
      | "quo" => okOpt (tryQuo x y) "fail"
      | "lsh" => okOpt (tryLsh x y) "fail"
      | "rsh" => okOpt (tryRsh x y) "fail"
      | "abnn" => okOpt (andBothNonNeg x y) "panic"
      | "obnn" => okOpt (orBothNonNeg x y) "panic"
      | "aonn" => okOpt (andOneNegOneNonNeg x y) "panic"
      | "oonn" =>
        -- the Go orOneNegOneNonNeg has no pre-condition check of its own: same as the model
        okOpt (orOneNegOneNonNeg x y) "panic"
      | "ipu" => "ok " ++ showIR (inPlaceUnite x y)
      | "and" => okOpt (Interval.and x y) "panic"
      | "or" => okOpt (Interval.or x y) "panic"
      | "andmax" | "ormax" =>
        match x.lo, x.hi, y.lo, y.hi with
        | some xl, some xh, some yl, some yh =>
          match (if op == "andmax" then andMaxP xl xh yl yh else orMaxP xl xh yl yh) with
          | some v => "v " ++ toString v
          | none => "panic"
        | _, _, _, _ => "bad-op"
      | _ => "bad-op"
  | ["bfr", n] =>
    match n.toInt? with
    | some i =>
      match bitFillRightP i with
      | some v => "v " ++ toString v
      | none => "panic"
    | none => "bad-op"
  | [op, a, b] =>
    match parseBound a, parseBound b with
    | some lo, some hi =>
      let x : IR := ⟨lo, hi⟩
      match op with
      | "split2" =>
        let (n, p, hn, hp) := x.split2
        s!"s {showIR n} {showIR p} {hn} {hp}"
      | "split3" =>
        let (n, p, hn, hz, hp) := x.split3
        s!"s {showIR n} {showIR p} {hn} {hz} {hp}"
      | _ => "bad-op"
    | _, _ => "bad-op"
  | _ => "bad-op"

def main : IO Unit := runPure c06Step
