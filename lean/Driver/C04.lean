import WuffsVerif.Common.Line
import WuffsVerif.Model.WSem
import WuffsVerif.Model.CExpr
import WuffsVerif.Model.Iterate
import WuffsVerif.Model.CStmtAst
import WuffsVerif.Model.CExprTreeAst
import WuffsVerif.Model.CSigned
/-! Line driver for C04.  Stateful ops:

  case <id> <serialised typed AST of one struct + its methods>   -> init ok | bad-program
  call <method> [<arg>=<int>]*                                    -> r <ret> | <field values>
                                                                     (or `undef:…` / `unsupported:…`)
  reinit                                                          -> init ok   (fresh receiver, same program)
  iocall <coroutine> <hex of the stream bytes available so far | -> <room of dst>
                     -> r <status> <bytes read> <bytes written> <hex written> | <field values>
                        (one call of a coroutine with I/O arguments; resumes after a suspension)
  lowerexpr <serialised typed AST of an expression>
                     -> canonical prefix form of the C that the modelled writeExpr recursion
                        (Model/CExprTree.lean lowerN / lowerB, subject of Props/C04Expr.lean) writes
  skel <method>      -> control skeleton of the C body that the modelled statement lowering
                        (Model/CStmt.lean lowerL, subject of Props/C04Stmt.lean) writes for the method
Stateless ops of the shape check (canonical prefix form of the C that `lower…` yields;
an operand kind is `v` (no ConstValue) or `c<value>`):
  lower <Bop> <ty> <lk> <rk>        lowerun <Uop>        lowerassoc <Aop> <ty> <n> [<k0> <k1>]
  loweras <from> <to> plain|maskR:<m>|maskL:<m>          lowerassign <op=> <ty> <rk>
  lowersigned <op> <ity> <lk> <rk>   (signed operand types; literal suffixes are part of the text)
-/
open WuffsVerif WuffsVerif.Line WuffsVerif.WSem WuffsVerif.WOps WuffsVerif.C

def parseWTy (s : String) : Option WTy :=
  match s with
  | "u8" => some .u8 | "u16" => some .u16 | "u32" => some .u32 | "u64" => some .u64 | _ => none

/-- `v` or `c<value>` -/
def parseKind (s : String) : Option (Option Nat) :=
  if s == "v" then some none
  else if s.startsWith "c" then ((s.drop 1).toString.toNat?).map some
  else none

def substHoles (f : Nat → Option Nat) : CExpr → CExpr
  | .hole i => match f i with | some v => .lit v | none => .hole i
  | .lit v => .lit v
  | .cast t e => .cast t (substHoles f e)
  | .bin op a b => .bin op (substHoles f a) (substHoles f b)
  | .un op e => .un op (substHoles f e)
  | .satAdd t a b => .satAdd t (substHoles f a) (substHoles f b)
  | .satSub t a b => .satSub t (substHoles f a) (substHoles f b)

def substAssign (f : Nat → Option Nat) : CAssign → CAssign
  | .plain r => .plain (substHoles f r)
  | .compound op r => .compound op (substHoles f r)
  | .satIndirect a t r => .satIndirect a t (substHoles f r)

def shapeStep (l : List String) : Option String :=
  match l with
  | ["lower", op, ty, lk, rk] => do
    let w ← wopOfBinary op
    let t ← parseWTy ty
    let lc ← parseKind lk
    let rc ← parseKind rk
    match lowerBin w t lc.isSome rc.isSome with
    | some e => pure (substHoles (fun i => if i == 0 then lc else if i == 1 then rc else none) e).show
    | none => pure "none"
  | ["lowerun", op] =>
    let u : Option WUn := match op with
      | "U+" => some .pos | "U-" => some .neg | "Unot" => some .lnot | _ => none
    u.map (fun u => match lowerUn u with | some e => e.show | none => "none")
  | ["lowerassoc", op, ty, n] => do
    let w ← wopOfAssoc op
    let t ← parseWTy ty
    let k ← n.toNat?
    match lowerAssoc w t k with
    | some e => pure e.show
    | none => pure "none"
  | ["lowerassoc", op, ty, n, k0, k1] => do
    -- the first two operands are constants
    let w ← wopOfAssoc op
    let t ← parseWTy ty
    let k ← n.toNat?
    let c0 ← parseKind k0
    let c1 ← parseKind k1
    match lowerAssocK w t k c0.isSome c1.isSome with
    | some e => pure (substHoles (fun i => if i == 0 then c0 else if i == 1 then c1 else none) e).show
    | none => pure "none"
  | ["loweras", frm, to, arg] => do
    let f ← parseWTy frm
    let t ← parseWTy to
    let a : AsArg ← (if arg == "plain" then some AsArg.plain
      else match arg.splitOn ":" with
        | ["maskR", m] => m.toNat?.map AsArg.maskR
        | ["maskL", m] => m.toNat?.map AsArg.maskL
        | _ => none)
    match lowerAs f t a with
    | some e => pure e.show
    | none => pure "none"
  | ["lowerassign", op, ty, rk] => do
    let w ← wopOfAssign op
    let t ← parseWTy ty
    let rc ← parseKind rk
    match lowerAssign w t rc.isSome with
    | some a => pure (substAssign (fun i => if i == 1 then rc else none) a).show
    | none => pure "none"
  | ["lowersigned", op, _ty, lk, rk] => do
    -- a binary node whose operands have a signed type (Model/CSigned.lean lowerSigned)
    let o : CSigned.SOp ← (match op with
      | "add" => some .add | "sub" => some .sub | "mul" => some .mul | "lt" => some .lt | "le" => some .le
      | "gt" => some .gt | "ge" => some .ge | "eq" => some .eq | "ne" => some .ne | _ => none)
    let lc ← parseKind lk
    let rc ← parseKind rk
    let l : CSigned.Opd := match lc with | some c => .const (Int.ofNat c) | none => .var 0
    let r : CSigned.Opd := match rc with | some c => .const (Int.ofNat c) | none => .var 1
    pure (CSigned.showNode o (CSigned.lowerSigned l r))
  | ["iterchain", n, spec] => do
    -- the model of the emitted rounds (Model/Iterate.lean cChain), from offset 0
    let n ← n.toNat?
    let blocks ← (spec.splitOn ",").mapM (fun b => match b.splitOn ":" with
      | [l, a, u] => do pure ((← l.toNat?), (← a.toNat?), (← u.toNat?))
      | _ => none)
    let vs := (WuffsVerif.Iterate.cChain n blocks 0).1
    pure ("v " ++ String.join (vs.map (fun (o, l) => s!"({o},{l})")))
  | _ => none

structure DSt where
  prog : Option Prog := none
  st : St := { fields := [] }
  /-- the receiver state at the start of the coroutine activation that is
  suspended at the moment (`iocall`), if any -/
  act : Option St := none

def hexByte (n : Nat) : String :=
  let d := fun (k : Nat) => (if k < 10 then Char.ofNat (48 + k) else Char.ofNat (87 + k))
  String.ofList [d (n / 16 % 16), d (n % 16)]

def hexOf (bs : List Nat) : String :=
  if bs.isEmpty then "-" else String.join (bs.map hexByte)

def parseHexBytes (s : String) : Option (List Nat) :=
  if s == "-" then some [] else
  let rec go : List Char → Option (List Nat)
    | [] => some []
    | [_] => none
    | a :: b :: r => do
      let x ← WuffsVerif.WSem.hexDigitVal a
      let y ← WuffsVerif.WSem.hexDigitVal b
      let t ← go r
      pure ((x * 16 + y) :: t)
  go s.toList

/-- One call of a coroutine with I/O arguments (`iocall`): `src` = all the bytes
of the stream that are available to this call (from the start of the stream),
`cap` = the room of the destination.  A call that follows a suspension resumes
the same activation: it is interpreted by running the activation again from
its start state (`d.act`) on the longer input. -/
def ioCall (d : DSt) (p : Prog) (f : Func) (src : List Nat) (cap : Nat) : DSt × String :=
  let base := match d.act with
    | some a => a
    | none => d.st
  let st0 : St := { base with io := { src := src, ri := base.io.ri, cap := cap, out := base.io.out } }
  let args : Binds := f.params.map (fun (n, _) => (n, Val.unit))
  match callPublic p st0 f args with
  | .error e => (d, e)
  | .ok (st', v) =>
    let status := match v with
      | .status s => s
      | _ => "ok"
    let d' : DSt := if status.startsWith "$" then { d with st := st', act := some base }
      else { d with st := st', act := none }
    let stxt := String.ofList (status.toList.map (fun c => if c == ' ' then '_' else c))
    (d', s!"r {stxt} {st'.io.ri} {st'.io.out.length} {hexOf st'.io.out} | {showSt p st'}")

def parseArg (s : String) : Option (String × Val) :=
  match s.splitOn "=" with
  | [k, v] => (v.toInt?).map (fun i => (k, Val.int i))
  | _ => none

def c04Step (d : DSt) (l : List String) : DSt × String :=
  match l with
  | "case" :: _id :: toks =>
    match (parseTree toks).bind loadProg with
    | some p => ({ prog := some p, st := initSt p }, "init ok")
    | none => ({}, "bad-program")
  | "lowerexpr" :: toks =>
    match parseTree toks with
    | some n => (d, WuffsVerif.C.lowerExprText n)
    | none => (d, "bad-expression")
  | ["reinit"] =>
    match d.prog with
    | some p => ({ prog := some p, st := initSt p }, "init ok")
    | none => (d, "bad-op")
  | ["iocall", m, src, cap] =>
    match d.prog with
    | none => (d, "bad-op")
    | some p =>
      match p.funcs.find? (fun f => f.name == m), parseHexBytes src, cap.toNat? with
      | some f, some bs, some c => ioCall d p f bs c
      | _, _, _ => (d, "bad-op")
  | ["skel", m] =>
    match d.prog with
    | none => (d, "bad-op")
    | some p =>
      match p.funcs.find? (fun f => f.name == m) with
      | some f => (d, WuffsVerif.CStmt.skeletonOf f.body f.out.isSome f.coro)
      | none => (d, "bad-op")
  | "call" :: m :: args =>
    match d.prog with
    | none => (d, "bad-op")
    | some p =>
      match p.funcs.find? (fun f => f.name == m), args.mapM parseArg with
      | some f, some as =>
        match callPublic p d.st f as with
        | .ok (st', v) => ({ d with st := st' }, s!"r {showVal v} | {showSt p st'}")
        | .error e => (d, e)
      | _, _ => (d, "bad-op")
  | _ =>
    match shapeStep l with
    | some out => (d, out)
    | none => (d, "bad-op")

def main : IO Unit := run ({} : DSt) c04Step
