import WuffsVerif.Common.Line
import WuffsVerif.Model.WSem
/-! Line driver for C04.  Stateful ops:

  case <id> <serialised typed AST of one struct + its methods>   -> init ok | bad-program
  call <method> [<arg>=<int>]*                                    -> r <ret> | <field values>
                                                                     (or `undef:…` / `unsupported:…`)
-/
open WuffsVerif WuffsVerif.Line WuffsVerif.WSem

structure DSt where
  prog : Option Prog := none
  st : St := { fields := [] }

def parseArg (s : String) : Option (String × Val) :=
  match s.splitOn "=" with
  | [k, v] => (v.toInt?).map (fun i => (k, Val.int i))
  | _ => none

def c04Step (d : DSt) (l : List String) : DSt × String :=
  match l with
  | "case" :: _id :: toks =>
    match (parseTree toks).bind loadProg with
    | some p => ({ prog := some p, st := initSt p }, "init ok")
    | none => ({}, "bad-program")
  | "call" :: m :: args =>
    match d.prog with
    | none => (d, "bad-op")
    | some p =>
      match p.funcs.find? (fun f => f.name == m), args.mapM parseArg with
      | some f, some as =>
        match callPublic p d.st f as with
        | .ok (st', v) => ({ d with st := st' }, s!"r {showVal v} | {showSt p st'}")
        | .error e => (d, e)
      | _, _ => (d, "bad-op")
  | _ => (d, "bad-op")

def main : IO Unit := run ({} : DSt) c04Step
