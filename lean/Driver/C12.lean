import WuffsVerif.Common.Line
import WuffsVerif.Model.Indent
import WuffsVerif.Model.Render
import WuffsVerif.Model.RenderTokens
import WuffsVerif.Proof.RenderShape
/-! Line driver for C12.  Ops:
  format <tabs 0|1> <spaces n> <hex>   -> ok <hex>      (lib/dumbindent FormatBytes(nil, src, opts))
  closed <tabs 0|1> <spaces n> <hex>   -> 1 | 0         (ghost: Indent.lexClosed, the hypothesis of indent_idempotent)
  num <hex>                            -> ok <hex>      (lang/render appendNum(nil, s))
  fmt <hex>                            -> ok <hex> | reject   (token.Tokenize + render.Render, no parse gate)
  rok <hex>                            -> 1 | 0 tokens | 0 comments | 0 sorted | 0 lines | reject
        (ghost: the hypothesis `streamOK` of Props.C12.render_retokenizes_partial on Tokenize's result;
         the harness sends it for every source the real wuffsfmt accepts and expects 1)
-/
open WuffsVerif WuffsVerif.Line

def c12Step (l : List String) : String :=
  match l with
  | ["format", tabs, spaces, hx] =>
    match spaces.toInt?, fromHex hx with
    | some n, some src =>
      if tabs != "0" && tabs != "1" then "bad-op" else
      let o : Indent.Opts := ⟨tabs == "1", n⟩
      match Indent.formatFuel (src.length + 1) o src with
      | some out => "ok " ++ toHex out
      | none => "err fuel"
    | _, _ => "bad-op"
  | ["closed", tabs, spaces, hx] =>
    match spaces.toInt?, fromHex hx with
    | some n, some src =>
      if tabs != "0" && tabs != "1" then "bad-op" else
      if Indent.lexClosed ⟨tabs == "1", n⟩ src then "1" else "0"
    | _, _ => "bad-op"
  | ["fmt", hx] =>
    match fromHex hx with
    | some s => match Render.fmt s with
      | some out => "ok " ++ toHex out
      | none => "reject"
    | none => "bad-op"
  | ["rok", hx] =>
    match fromHex hx with
    | some s => match FmtToken.tokenize s with
      | some (toks, comments) =>
        if !toks.all Render.wfTok then "0 tokens"
        else if !comments.toList.all Render.wfComment then "0 comments"
        else if !Render.sortedLinesB toks then "0 sorted"
        else if !Render.linesOK (toks.length + 1) toks then "0 lines"
        else "1"
      | none => "reject"
    | none => "bad-op"
  | ["num", hx] =>
    match fromHex hx with
    | some s => "ok " ++ toHex (Render.appendNum s)
    | none => "bad-op"
  | _ => "bad-op"

def main : IO Unit := runPure c12Step
