import WuffsVerif.Common.Line
import WuffsVerif.Model.Indent
import WuffsVerif.Model.Render
import WuffsVerif.Model.RenderTokens
import WuffsVerif.Proof.RenderShape
import WuffsVerif.Proof.RenderIdemMeasure
import WuffsVerif.Proof.IndentLex
/-! Line driver for C12.  Ops:
  format <tabs 0|1> <spaces n> <hex>   -> ok <hex>      (lib/dumbindent FormatBytes(nil, src, opts))
  closed <tabs 0|1> <spaces n> <hex>   -> 1 | 0         (ghost: Indent.lexClosed, the hypothesis of indent_idempotent)
  term <hex>                           -> <rawTerminated><delimitersTerminated> as two bits (the hypothesis of
        indent_idempotent_terminated, a predicate on the text alone; the harness sends it for every text its
        independent classifier calls lexically closed and expects 11)
  num <hex>                            -> ok <hex>      (lang/render appendNum(nil, s))
  fmt <hex>                            -> ok <hex> | reject   (token.Tokenize + render.Render, no parse gate)
  rok <hex>                            -> 1 | 0 tokens | 0 comments | 0 sorted | 0 lines | 0 numcolon | reject
        (ghost: the hypotheses of Props.C12.render_retokenizes_partial / render_idempotent on Tokenize's result:
         `streamOK`, and `numColonFree` (no numeric literal directly before a ":");
         the harness sends it for every source the real wuffsfmt accepts and expects 1)
  mvl <group index> <hex source>       -> <measureVarNameLength> <findColon | -1> | empty | none
        (per-function tie, round 2: Tokenize the source, take the index-th line of tokens with its
         trailing semicolons stripped and the tokens after it, as Render's loop does)
  cmt <line> <indent> <0|1> <hex of the comments joined by \n> <number of comments>  -> ok <hex>   (appendComment)
  tabs <n>                             -> <length> <1 if all spaces>                                (appendTabs)
  tflags <hex text>                    -> 13 bits: isClose isTightLeft isTightRight unary&binary isIdent isLiteral
        isDQStr isSQStr isCloseIdentLiteral isCloseIdentStrLiteralQuestion implicitSemicolon =="(" =="="
-/
open WuffsVerif WuffsVerif.Line

/-- the lines of tokens as `Render`'s loop takes them: (line, tokens after it) -/
def c12Groups : Nat → List FmtToken.Tok → List (List FmtToken.Tok × List FmtToken.Tok)
  | 0, _ => []
  | _, [] => []
  | f + 1, t0 :: rest =>
    let g := t0 :: rest.takeWhile (·.line == t0.line)
    let src := rest.dropWhile (·.line == t0.line)
    (g, src) :: c12Groups f src

def c12SplitLines (bs : List UInt8) : List (List UInt8) :=
  let r := bs.foldl (fun (acc : List (List UInt8) × List UInt8) b =>
    if b == 10 then (acc.2.reverse :: acc.1, []) else (acc.1, b :: acc.2)) ([], [])
  (r.2.reverse :: r.1).reverse

def c12Bit (b : Bool) : String := if b then "1" else "0"

def c12Step (l : List String) : String :=
  match l with
  | ["format", tabs, spaces, hx] =>
    match spaces.toInt?, fromHex hx with
    | some n, some src =>
      if tabs != "0" && tabs != "1" then "bad-op" else
      let o : Indent.Opts := ⟨tabs == "1", n⟩
      match Indent.formatFuel (src.length + 1) o src with
      | some out => "ok " ++ toHex out
      | none => "err fuel"
    | _, _ => "bad-op"
  | ["closed", tabs, spaces, hx] =>
    match spaces.toInt?, fromHex hx with
    | some n, some src =>
      if tabs != "0" && tabs != "1" then "bad-op" else
      if Indent.lexClosed ⟨tabs == "1", n⟩ src then "1" else "0"
    | _, _ => "bad-op"
  | ["term", hx] =>
    match fromHex hx with
    | some src => c12Bit (Indent.rawTerminated src) ++ c12Bit (Indent.delimitersTerminated src)
    | none => "bad-op"
  | ["fmt", hx] =>
    match fromHex hx with
    | some s => match Render.fmt s with
      | some out => "ok " ++ toHex out
      | none => "reject"
    | none => "bad-op"
  | ["rok", hx] =>
    match fromHex hx with
    | some s => match FmtToken.tokenize s with
      | some (toks, comments) =>
        if !toks.all Render.wfTok then "0 tokens"
        else if !comments.toList.all Render.wfComment then "0 comments"
        else if !Render.sortedLinesB toks then "0 sorted"
        else if !Render.linesOK (toks.length + 1) toks then "0 lines"
        else if !Render.numColonFree toks then "0 numcolon"
        else "1"
      | none => "reject"
    | none => "bad-op"
  | ["mvl", gi, hx] =>
    match gi.toNat?, fromHex hx with
    | some gi, some s =>
      match FmtToken.tokenize s with
      | some (toks, _) =>
        match (c12Groups (toks.length + 1) toks)[gi]? with
        | some (g, remaining) =>
          let lineTokens := (Render.stripSemicolons g).1
          if lineTokens.isEmpty then "empty" else
          s!"{Render.measureVarNameLength lineTokens remaining} {match Render.findColon lineTokens with | some i => toString i | none => "-1"}"
        | none => "none"
      | none => "none"
    | _, _ => "bad-op"
  | ["cmt", line, indent, oe, hx, n] =>
    match line.toNat?, indent.toInt?, fromHex hx, n.toNat? with
    | some line, some indent, some bs, some n =>
      let comments : Array (List UInt8) := if n == 0 then #[] else (c12SplitLines bs).toArray
      "ok " ++ toHex (Render.commentText comments line indent (oe == "1"))
    | _, _, _, _ => "bad-op"
  | ["tabs", n] =>
    match n.toInt? with
    | some n => let s := Render.tabs n; s!"{s.length} {c12Bit (s.all (· == 32))}"
    | none => "bad-op"
  | ["tflags", hx] =>
    match fromHex hx with
    | some text =>
      let t : FmtToken.Tok := ⟨(FmtToken.intern text).1, text, 0⟩
      String.join ([t.isClose, t.isTightLeft, t.isTightRight, t.isUnaryAndBinary, t.isIdent, t.isLiteral,
        t.isDQStr, t.isSQStr, Render.isCloseIdentLiteral t, Render.isCloseIdentStrLiteralQuestion t,
        t.implicitSemicolon, t.id == Gen.C12.idOpenParen, t.id == Gen.C12.idEq].map c12Bit)
    | none => "bad-op"
  | ["num", hx] =>
    match fromHex hx with
    | some s => "ok " ++ toHex (Render.appendNum s)
    | none => "bad-op"
  | _ => "bad-op"

def main : IO Unit := runPure c12Step
